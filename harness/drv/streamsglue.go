//go:build verif

package main

import (
	"bufio"
	"fmt"
	"sort"
	"strings"

	quic "github.com/refraction-networking/uquic"
	u "github.com/refraction-networking/uquic/internal/verifutil"
)

func init() { units["streamsglue"] = runStreamsGlue }

// streamsglue (property C15): the connection's frame handling in front of the streams map. Real
// server and client Conns, with and without a qlog tracer, are fed 1-RTT packet payloads of 1-4
// stream-related frames, in particular [offending frame][valid STREAM frame].
//
// CASE term: GlueCase client tracer maxBidi maxUni [[frames of packet 1]; ...] [verdicts] ib iu.
// The model's verdict for the frame sequence (StreamsMap model, frames in order, first error ends
// the packet and the connection) must be the connection's close error, tracer or not.
//
// MONITOR (model-independent, from stream-ID arithmetic and the advertised limits only): a frame
// naming a peer stream beyond the advertised limit => the packet fails with STREAM_LIMIT_ERROR; a
// frame of the wrong direction or for a local stream never opened => STREAM_STATE_ERROR; nothing
// else fails; and no frame behind the failing one is handled (no stream is opened by it).

const (
	smgStream = iota
	smgResetStream
	smgStreamDataBlocked
	smgStopSending
	smgMaxStreamData
	smgPing
	smgMaxStreams
)

var smgNames = []string{"STREAM", "RESET_STREAM", "STREAM_DATA_BLOCKED", "STOP_SENDING", "MAX_STREAM_DATA", "PING", "MAX_STREAMS"}
var smgCoq = []string{"GStream", "GResetStream", "GStreamDataBlocked", "GStopSending", "GMaxStreamData", "GPing", "GMaxStreams"}

func smgFrameCoq(f quic.VerifSGFrame) string {
	switch f.Kind {
	case smgPing:
		return "GPing"
	case smgMaxStreams:
		return u.App("GMaxStreams", u.B(f.Uni), u.Z(f.ID))
	}
	return u.App(smgCoq[f.Kind], u.Z(f.ID))
}

func smgFrameText(f quic.VerifSGFrame) string {
	switch f.Kind {
	case smgPing:
		return "PING"
	case smgMaxStreams:
		return fmt.Sprintf("MAX_STREAMS(uni=%v,%d)", f.Uni, f.ID)
	}
	return fmt.Sprintf("%s(%d)", smgNames[f.Kind], f.ID)
}

// smgExpect: verdict of one frame from ID arithmetic and the advertised limits; opened: number
// of streams the peer has opened so far per type (updated for frames that open streams).
// 0 ok, 1 STREAM_STATE_ERROR, 2 STREAM_LIMIT_ERROR.
func smgExpect(client bool, limit [2]int64, opened *[2]int64, f quic.VerifSGFrame) int {
	if f.Kind == smgPing || f.Kind == smgMaxStreams {
		return 0
	}
	uni := f.ID%4 >= 2
	local := (f.ID%2 == 0) == client
	recv := f.Kind <= smgStreamDataBlocked
	t := b2i(uni)
	switch {
	case uni && local && recv, uni && !local && !recv:
		return 1 // wrong direction
	case local:
		return 1 // we never opened a stream
	}
	n := f.ID/4 + 1
	if n > limit[t] {
		return 2
	}
	if n > opened[t] {
		opened[t] = n
	}
	return 0
}

type smgCase struct {
	client, tracer bool
	limit          [2]int64
	pkts           [][]quic.VerifSGFrame
}

func (c smgCase) text(upto int) string {
	var ps []string
	for i, p := range c.pkts {
		if i > upto {
			break
		}
		fs := make([]string, len(p))
		for j, f := range p {
			fs[j] = smgFrameText(f)
		}
		ps = append(ps, "["+strings.Join(fs, " ")+"]")
	}
	return fmt.Sprintf("client=%v qlog-tracer=%v MaxIncomingStreams=%d MaxIncomingUniStreams=%d packets=%s", c.client, c.tracer, c.limit[0], c.limit[1], strings.Join(ps, " "))
}

func smgRun(w *bufio.Writer, c smgCase, dist map[string]int, failed map[string]bool) {
	monfail := func(key, desc, detail string) {
		if failed[key] {
			return
		}
		failed[key] = true
		fmt.Fprintf(w, "MONFAIL\tstreamsglue/%s\t%s\t%s\n", key, desc, detail)
	}
	v, err := quic.NewVerifSGConn(c.client, c.tracer, c.limit[0], c.limit[1])
	if err != nil {
		monfail("construct", "cannot construct the connection: "+err.Error(), c.text(-1))
		return
	}
	defer v.Shutdown()
	if v.HasTracer() != c.tracer {
		monfail("tracer", "the connection does not record qlog events although a trace was given (or vice versa)", c.text(-1))
	}
	var opened [2]int64
	var verdicts []int64
	var pk []string
	errSeen := false
	for i, p := range c.pkts {
		// expected verdict of the packet: the first frame that is not ok
		want, bad := 0, -1
		op := opened
		for j, f := range p {
			if e := smgExpect(c.client, c.limit, &op, f); e != 0 {
				want, bad = e, j
				break
			}
		}
		class, code, _, msg := v.Packet(p)
		verdicts = append(verdicts, int64(class))
		fs := make([]string, len(p))
		for j, f := range p {
			fs[j] = smgFrameCoq(f)
		}
		pk = append(pk, u.List(fs))
		if code == -2 {
			monfail("panic", msg, c.text(i))
		}
		names := []string{"no error", "STREAM_STATE_ERROR", "STREAM_LIMIT_ERROR"}
		switch {
		case want != 0 && class == 0:
			monfail("error-masked", fmt.Sprintf("%s must close the connection with %s, but the packet was handled without error", smgFrameText(p[bad]), names[want]), c.text(i))
		case want != class:
			wn := "error class " + fmt.Sprint(want)
			if want < 3 {
				wn = names[want]
			}
			monfail("verdict", fmt.Sprintf("packet %d: expected %s, got error class %d (code %d: %s)", i, wn, class, code, msg), c.text(i))
		}
		// streams opened: exactly by the frames before the failing one
		for t := 0; t < 2; t++ {
			_, nextOpen, _, _ := v.In(t == 1)
			if wantOpen := smFirst(t == 1, !c.client) + 4*op[t]; nextOpen != wantOpen {
				monfail("frame-handled-after-error", fmt.Sprintf("packet %d: after it nextStreamToOpen(uni=%v) is %d, expected %d: a frame behind the failing one was handled (or one before it was not)", i, t == 1, nextOpen, wantOpen), c.text(i))
			}
		}
		opened = op
		if want != 0 {
			dist[fmt.Sprintf("offending-%s-then-%d-frames", names[want], len(p)-bad-1)]++
		}
		if class != 0 {
			errSeen = true
			break // the connection is closed
		}
	}
	snap := func(uni bool) string {
		a, o, m, n := v.In(uni)
		return u.Pair(u.Z(a), u.Z(o), u.Z(m), u.Z(n))
	}
	vs := make([]string, len(verdicts))
	for i, x := range verdicts {
		vs[i] = u.Z(x)
	}
	nt := 0
	if errSeen {
		nt = 1
	}
	fmt.Fprintf(w, "CASE %d %s\n", nt, u.App("GlueCase", u.B(c.client), u.B(c.tracer), u.Z(c.limit[0]), u.Z(c.limit[1]), u.List(pk), u.List(vs), snap(false), snap(true)))
	dist["cases"]++
	if c.tracer {
		dist["with-tracer"]++
	}
}

func runStreamsGlue(w *bufio.Writer, seed uint64, n int, _ []string) {
	r := u.NewRng(seed)
	dist := map[string]int{}
	failed := map[string]bool{}
	// the table of the offending frames, each followed by a valid STREAM frame in the same packet
	for _, client := range []bool{false, true} {
		for _, tracer := range []bool{false, true} {
			pb, pu := smFirst(false, !client), smFirst(true, !client)
			lb, lu := smFirst(false, client), smFirst(true, client)
			valid := quic.VerifSGFrame{Kind: smgStream, ID: pb}
			for _, off := range []quic.VerifSGFrame{
				{Kind: smgStream, ID: pb + 4*2}, {Kind: smgStream, ID: pu + 4*2}, {Kind: smgResetStream, ID: pu + 4*2},
				{Kind: smgStreamDataBlocked, ID: pb + 4*2}, {Kind: smgMaxStreamData, ID: pb + 4*2},
				{Kind: smgStream, ID: lu}, {Kind: smgStream, ID: lb}, {Kind: smgResetStream, ID: lu},
				{Kind: smgStopSending, ID: pu}, {Kind: smgMaxStreamData, ID: lb}, {Kind: smgStopSending, ID: lu},
			} {
				smgRun(w, smgCase{client, tracer, [2]int64{2, 2}, [][]quic.VerifSGFrame{{off, valid}}}, dist, failed)
				smgRun(w, smgCase{client, tracer, [2]int64{2, 2}, [][]quic.VerifSGFrame{{valid}, {{Kind: smgPing}, off, valid, valid}}}, dist, failed)
			}
		}
	}
	for i := 0; i < n; i++ {
		c := smgCase{client: r.Bool(), tracer: r.Bool(), limit: [2]int64{r.Pick(0, 1, 2, 2, 3), r.Pick(0, 1, 2, 2, 3)}}
		var opened [2]int64
		for p, np := 0, r.Range(1, 5); p < np; p++ {
			var pkt []quic.VerifSGFrame
			for f, nf := 0, r.Range(1, 4); f < nf; f++ {
				uni, byClient := r.Bool(), r.Bool()
				local := byClient == c.client
				t := b2i(uni)
				first := smFirst(uni, byClient)
				var fr quic.VerifSGFrame
				switch k := r.Intn(20); {
				case k < 9: // a STREAM frame for the peer's next / an open / the last allowed stream
					if local {
						byClient, local, first = !byClient, false, smFirst(uni, !byClient)
					}
					idx := opened[t] + r.Pick(-1, 0, 0, 0, 1)
					if r.Chance(1, 4) {
						idx = c.limit[t] + r.Pick(-1, 0, 1)
					}
					if idx < 0 {
						idx = 0
					}
					fr = quic.VerifSGFrame{Kind: smgStream, ID: first + 4*idx}
				case k < 10:
					fr = quic.VerifSGFrame{Kind: smgPing}
				case k < 11:
					fr = quic.VerifSGFrame{Kind: smgMaxStreams, Uni: uni, ID: r.Pick(0, 1, 2, 5)}
				default: // any stream-related frame for any class of ID, around the boundaries
					kind := []int{smgStream, smgResetStream, smgStreamDataBlocked, smgStopSending, smgMaxStreamData}[r.Intn(5)]
					idx := r.Pick(0, 0, 1) + r.Pick(0, opened[t], c.limit[t]-1, c.limit[t], c.limit[t]+1)
					if idx < 0 {
						idx = 0
					}
					// a RESET_STREAM for an open stream would complete it: keep those beyond the limit
					if kind == smgResetStream && !local && idx < c.limit[t] {
						idx = c.limit[t] + 1
					}
					fr = quic.VerifSGFrame{Kind: kind, ID: first + 4*idx}
				}
				pkt = append(pkt, fr)
			}
			c.pkts = append(c.pkts, pkt)
			// keep the generator's idea of what is open roughly right (exact value is the monitor's job)
			op := opened
			for _, f := range pkt {
				if smgExpect(c.client, c.limit, &op, f) != 0 {
					break
				}
			}
			opened = op
		}
		smgRun(w, c, dist, failed)
	}
	keys := make([]string, 0, len(dist))
	for k := range dist {
		keys = append(keys, k)
	}
	sort.Strings(keys)
	for _, k := range keys {
		fmt.Fprintf(w, "DIST\t%s\t%d\n", k, dist[k])
	}
}
