//go:build verif

package main

import (
	"bufio"
	"context"
	"fmt"
	"os"
	"runtime"
	"sort"
	"strings"
	"sync"
	"sync/atomic"
	"testing/synctest"
	"time"

	quic "github.com/refraction-networking/uquic"
	u "github.com/refraction-networking/uquic/internal/verifutil"
)

func init() {
	units["streamsmap"] = runStreamsMap
	genSources = append(genSources, quic.VerifSMConsts)
}

// streamsmap unit (property C15): random histories of peer frames, local Open / OpenSync /
// Accept calls with cancellations, stream completions, MAX_STREAMS, transport parameters,
// CloseWithError and 0-RTT resets against the real newStreamsMap, both perspectives.
// Blocking calls run as goroutines inside a synctest bubble; after every external op the
// harness waits until every goroutine is durably blocked and logs which blocked callers
// returned (in the order of their critical sections).
//
// CASE term: SMCase client maxBidi maxUni [(op, res, frames); ...] ib iu ob ou reset.
// The MONITORS below state C15 on the implementation's own trace; they use only what the
// peer / the application can see plus the fields the property is about, never the model.

type smCaller struct {
	w        int64 // waiter id (OpenStreamSync callers)
	uni      bool
	gen      int
	cancel   context.CancelFunc
	finished atomic.Bool
	id       int64
	err      int
	ch       chan struct{}
	accept   bool
	fresh    bool // AcceptStream call whose OAcceptCall step is not emitted yet (started inside a hook)
	panicked atomic.Value
}

type smCase struct {
	w      *bufio.Writer
	r      *u.Rng
	v      *quic.VerifSM
	client bool
	maxIn  [2]int64 // configured incoming limits [bidi, uni]
	steps  []string
	desc   []string // human readable ops (for MONFAIL detail)
	gen    int
	closed bool
	reset  bool

	waiters   []*smCaller // parked OpenStreamSync callers, arrival order (all generations)
	acceptors []*smCaller // parked AcceptStream callers
	nextW     int64
	nextA     int64 // AcceptStream caller ids
	lateFr    []quic.VerifSMFrame // frames queued by callers that ran inside an external op (accept storm)
	storms    [3]int

	// shadow state of the monitors (wire- / API-visible facts only)
	advIn     [2]int64          // highest MAX_STREAMS count advertised to the peer (initial: configured limit)
	peerMax   [2]int64          // highest stream count the peer allowed us
	openedOut [2]int64          // number of streams we opened
	accepted  [2]int64          // number of streams AcceptStream returned
	blockedAt [2]map[int64]bool // STREAMS_BLOCKED limits already sent
	nframes   int
	nwakes    int
	failed    map[string]bool
	profile   int
	raceTaken [2]int
	pending   [][2]string
	forced    *smForced // scripted op (exhaustive small universes of the thorough tier)
	deleted   map[int64]bool // streams whose completion DeleteStream accepted (current map generation)
	acceptedI map[int64]bool // streams AcceptStream returned
	peerOpen  [2]int64       // number of streams the peer has opened (highest accepted frame)
}

const (
	smErrState = 1
	smErrLimit = 2
	smErrLimitReached = 3
	smErrClosed = 4
	smErr0RTT = 5
	smErrCtx = 6
)

func smB2i(b bool) int {
	if b {
		return 1
	}
	return 0
}

// firstID: first stream ID of a (type, initiator) class.
func smFirst(uni, byClient bool) int64 {
	switch {
	case !uni && byClient:
		return 0
	case !uni && !byClient:
		return 1
	case uni && byClient:
		return 2
	}
	return 3
}

func (c *smCase) monfail(key, desc string) {
	if c.failed[key] {
		return
	}
	c.failed[key] = true
	c.pending = append(c.pending, [2]string{key, desc})
}

// flush prints the monitor failures of the step just executed, with the history up to and
// including that step as the concrete failing input.
func (c *smCase) flush() {
	for _, p := range c.pending {
		fmt.Fprintf(c.w, "MONFAIL\tstreamsmap/%s\t%s\tclient=%v maxBidi=%d maxUni=%d ops=%s\n", p[0], p[1], c.client, c.maxIn[0], c.maxIn[1], strings.Join(c.desc, " "))
	}
	c.pending = nil
}

func smRes(id int64, err int, unit bool) string {
	switch {
	case err != 0:
		return u.App("RErr", u.Z(int64(err)))
	case unit:
		return "RUnit"
	case id < 0:
		return "RNil"
	}
	return u.App("RId", u.Z(id))
}

func smFrames(fs []quic.VerifSMFrame) string {
	out := make([]string, len(fs))
	for i, f := range fs {
		name := "FMax"
		if f.Blocked {
			name = "FBlocked"
		}
		out[i] = u.App(name, u.B(f.Uni), u.Z(f.Num))
	}
	return u.List(out)
}

// record one model step and run the frame monitors on the frames it queued.
func (c *smCase) step(op, res string, frames []quic.VerifSMFrame, human string) {
	c.steps = append(c.steps, u.Pair(op, res, smFrames(frames)))
	c.desc = append(c.desc, human+"=>"+res)
	for _, f := range frames {
		c.nframes++
		t := smB2i(f.Uni)
		switch {
		case f.Other:
			c.monfail("frame/unexpected-type", "streams map queued a frame that is neither MAX_STREAMS nor STREAMS_BLOCKED")
		case f.Blocked:
			// one STREAMS_BLOCKED per limit value, and it names the limit the peer gave us
			if f.Num != c.peerMax[t] {
				c.monfail("blocked/wrong-limit", fmt.Sprintf("STREAMS_BLOCKED carries limit %d, peer's limit is %d", f.Num, c.peerMax[t]))
			}
			if c.blockedAt[t][f.Num] {
				c.monfail("blocked/duplicate", fmt.Sprintf("second STREAMS_BLOCKED for limit %d", f.Num))
			}
			c.blockedAt[t][f.Num] = true
		default:
			// MAX_STREAMS strictly increasing, never above 2^60
			if f.Num <= c.advIn[t] {
				c.monfail("maxstreams/not-increasing", fmt.Sprintf("MAX_STREAMS %d queued after %d was advertised", f.Num, c.advIn[t]))
			}
			if f.Num > 1<<60 {
				c.monfail("maxstreams/too-large", fmt.Sprintf("MAX_STREAMS %d > 2^60", f.Num))
			}
			c.advIn[t] = f.Num
		}
	}
}

// a locally opened stream was returned to a caller
func (c *smCase) monOpened(uni bool, id int64, what string) {
	t := smB2i(uni)
	want := smFirst(uni, c.client) + 4*c.openedOut[t]
	if id != want {
		c.monfail("open/id-sequence", fmt.Sprintf("%s returned stream %d, expected %d (first+4k)", what, id, want))
	}
	c.openedOut[t]++
	if c.openedOut[t] > c.peerMax[t] {
		c.monfail("open/above-peer-limit", fmt.Sprintf("%s opened stream %d (number %d) but the peer allows %d", what, id, c.openedOut[t], c.peerMax[t]))
	}
}

func (c *smCase) parkedWaiters(uni bool) []*smCaller {
	var out []*smCaller
	for _, x := range c.waiters {
		if x.uni == uni && x.gen == c.gen {
			out = append(out, x)
		}
	}
	return out
}

// after the bubble is quiescent: which blocked callers returned? Emit their steps.
func (c *smCase) collect(frameFrom, createdFrom int) {
	created := c.v.Created(createdFrom)
	pos := map[int64]int{}
	for i, id := range created {
		pos[id] = i
	}
	var done []*smCaller
	var rest []*smCaller
	for _, x := range c.waiters {
		if x.finished.Load() {
			done = append(done, x)
		} else {
			rest = append(rest, x)
		}
	}
	// successful wake-ups in the order their streams were created (= order of the critical sections), errors last
	sort.SliceStable(done, func(i, j int) bool {
		a, b := done[i], done[j]
		if (a.err == 0) != (b.err == 0) {
			return a.err == 0
		}
		if a.err == 0 {
			return pos[a.id] < pos[b.id]
		}
		return a.w < b.w
	})
	for _, x := range done {
		c.nwakes++
		if p := x.panicked.Load(); p != nil {
			c.monfail("panic", fmt.Sprintf("OpenStreamSync goroutine panicked: %v", p))
		}
		if x.gen != c.gen && x.err != smErr0RTT {
			c.monfail("reset/waiter-outcome", fmt.Sprintf("OpenStreamSync waiter %d was blocked on a map replaced by ResetFor0RTT and returned stream %d / error class %d instead of Err0RTTRejected", x.w, x.id, x.err))
		}
		if x.err == 0 {
			// FIFO: the served waiter must be the earliest still-parked caller of this map
			pw := c.parkedWaiters(x.uni)
			if x.gen != c.gen {
				c.monfail("fifo/stale-waiter-served", fmt.Sprintf("waiter %d of a map replaced by ResetFor0RTT got stream %d", x.w, x.id))
			} else if len(pw) == 0 || pw[0] != x {
				first := int64(-1)
				if len(pw) > 0 {
					first = pw[0].w
				}
				c.monfail("fifo/order", fmt.Sprintf("waiter %d got stream %d although waiter %d arrived earlier", x.w, x.id, first))
			}
			c.monOpened(x.uni, x.id, fmt.Sprintf("OpenStreamSync(waiter %d)", x.w))
		}
		// remove from arrival list
		for i, y := range c.waiters {
			if y == x {
				c.waiters = append(c.waiters[:i:i], c.waiters[i+1:]...)
				break
			}
		}
		c.step(u.App("OSyncWake", u.B(x.uni), u.Z(x.w)), smRes(x.id, x.err, false), nil, fmt.Sprintf("wake(w%d)", x.w))
	}
	_ = rest
	var adone []*smCaller
	for _, x := range c.acceptors {
		if x.finished.Load() {
			adone = append(adone, x)
		}
	}
	// streams are handed out in ID order, so the ID order is the order of the critical sections
	sort.SliceStable(adone, func(i, j int) bool {
		a, b := adone[i], adone[j]
		if (a.err == 0) != (b.err == 0) {
			return a.err == 0
		}
		return a.err == 0 && a.id < b.id
	})
	for _, x := range adone {
		c.nwakes++
		if p := x.panicked.Load(); p != nil {
			c.monfail("panic", fmt.Sprintf("AcceptStream goroutine panicked: %v", p))
		}
		if x.gen != c.gen && x.err != smErr0RTT {
			c.monfail("reset/waiter-outcome", fmt.Sprintf("AcceptStream caller %d was blocked on a map replaced by ResetFor0RTT and returned stream %d / error class %d instead of Err0RTTRejected", x.w, x.id, x.err))
		}
		if x.err == 0 {
			c.monAccepted(x.uni, x.id)
		}
		for i, y := range c.acceptors {
			if y == x {
				c.acceptors = append(c.acceptors[:i:i], c.acceptors[i+1:]...)
				break
			}
		}
		op := "OAcceptWake"
		if x.fresh {
			op, x.fresh = "OAcceptCall", false
		}
		// a caller that is handed a stream which was completed before is the one that queues the
		// MAX_STREAMS for it; GetOrOpenStream never queues a frame
		var xfr []quic.VerifSMFrame
		if x.err == 0 && c.deleted[x.id] && len(c.lateFr) > 0 {
			xfr, c.lateFr = c.lateFr[:1], c.lateFr[1:]
		}
		c.step(u.App(op, u.B(x.uni), u.Z(x.w)), smRes(x.id, x.err, false), xfr, fmt.Sprintf("%s(a%d)", strings.ToLower(op[1:]), x.w))
	}
	if len(c.lateFr) > 0 {
		c.monfail("frame/unattributed", fmt.Sprintf("%d control frames were queued that no step accounts for", len(c.lateFr)))
		c.lateFr = nil
	}
	// callers started inside a hook that are now blocked: their call is reported here
	for _, x := range c.acceptors {
		if x.fresh {
			x.fresh = false
			c.step(u.App("OAcceptCall", u.B(x.uni), u.Z(x.w)), "RParked", nil, fmt.Sprintf("acceptcall(a%d)", x.w))
		}
	}
	// frames queued by woken callers would be unattributed: there must be none
	if n := c.v.NumFrames(); n != frameFrom {
		c.monfail("frame/queued-by-wakeup", "a control frame was queued by a woken blocked caller")
	}
}

// one AcceptStream / AcceptUniStream call from a new goroutine
func (c *smCase) acceptCall(uni bool) {
	x := &smCaller{uni: uni, gen: c.gen, accept: true, w: c.nextA}
	c.nextA++
	ctx, cancel := context.WithCancel(context.Background())
	x.cancel = cancel
	fr, fe, cf := c.ext(func() { c.spawn(x, ctx) })
	op := u.App("OAcceptCall", u.B(uni), u.Z(x.w))
	if x.finished.Load() {
		if p := x.panicked.Load(); p != nil {
			c.monfail("panic", fmt.Sprintf("AcceptStream panicked: %v", p))
		}
		if x.err == 0 {
			c.monAccepted(uni, x.id)
		}
		c.step(op, smRes(x.id, x.err, false), fr, fmt.Sprintf("accept(%v,a%d)", uni, x.w))
	} else {
		c.acceptors = append(c.acceptors, x)
		c.step(op, "RParked", fr, fmt.Sprintf("accept(%v,a%d)", uni, x.w))
	}
	c.collect(fe, cf)
}

// tryAcceptStorm: 2-4 concurrent AcceptStream callers of one type and a frame that opens 1-4
// streams at once. mode 0: the callers are parked in the select beforehand; mode 1: they start
// while GetOrOpenStream holds the map's mutex (hook in the stream constructor) and queue up on
// it; mode 2: both. Every opened stream must be handed out exactly once, in ID order, and no
// caller may stay blocked while a stream is waiting.
func (c *smCase) tryAcceptStorm() bool {
	r, v := c.r, c.v
	if c.closed || c.reset {
		return false
	}
	uni := r.Bool()
	in := v.SnapIn(uni)
	if in.Closed {
		return false
	}
	o := in.NextOpen / 4
	var m int64
	if in.Max >= 0 {
		m = in.Max/4 + 1
	}
	room := m - o
	if room < 1 {
		return false
	}
	j := int64(1 + r.Intn(int(smMin64(room, 4))))
	id := smFirst(uni, !c.client) + 4*(o+j-1)
	mode := r.Intn(3)
	c.storms[mode]++
	if mode != 1 {
		for i, k := 0, r.Range(2, 4); i < k; i++ {
			c.acceptCall(uni)
		}
	}
	var hooked []*smCaller
	if mode != 0 {
		k := r.Range(2, 4)
		var started atomic.Int32
		var once sync.Once
		v.SetOnCreate(func(int64) {
			once.Do(func() {
				for i := 0; i < k; i++ {
					x := &smCaller{uni: uni, gen: c.gen, accept: true, fresh: true, w: c.nextA}
					c.nextA++
					ctx, cancel := context.WithCancel(context.Background())
					x.cancel = cancel
					hooked = append(hooked, x)
					go func() {
						started.Add(1)
						c.run(x, ctx)
					}()
				}
				// let them run until they queue up on the mutex this goroutine holds (a goroutine
				// blocked on a mutex is not durably blocked, so synctest.Wait cannot be used here)
				for i := 0; i < 4000 && (int(started.Load()) < k || i < 1500); i++ {
					runtime.Gosched()
				}
			})
		})
	}
	var got int64
	var e int
	fr, fe, cf := c.ext(func() { got, e = v.Recv(id) })
	v.SetOnCreate(nil)
	c.monFrameDispatch(id, got, e, true)
	c.step(u.App("ORecv", u.Z(id)), smRes(got, e, false), nil, fmt.Sprintf("recv(%d)", id))
	c.lateFr = fr
	c.acceptors = append(c.acceptors, hooked...)
	c.collect(fe, cf)
	return true
}

func (c *smCase) monAccepted(uni bool, id int64) {
	t := smB2i(uni)
	want := smFirst(uni, !c.client) + 4*c.accepted[t]
	if id != want {
		c.monfail("accept/order", fmt.Sprintf("AcceptStream returned stream %d, expected %d (each stream once, in ID order)", id, want))
	}
	c.accepted[t]++
	c.acceptedI[id] = true
}

// state monitors, run when the bubble is quiescent
func (c *smCase) monState() {
	for _, x := range c.waiters {
		if x.gen != c.gen {
			c.monfail("reset/waiter-still-blocked", fmt.Sprintf("OpenStreamSync waiter %d stays blocked on a map replaced by ResetFor0RTT", x.w))
		}
	}
	for _, x := range c.acceptors {
		if x.gen != c.gen {
			c.monfail("reset/waiter-still-blocked", fmt.Sprintf("AcceptStream caller %d stays blocked on a map replaced by ResetFor0RTT", x.w))
		}
	}
	for t := 0; t < 2; t++ {
		in := c.v.SnapIn(t == 1)
		n := int64(len(in.Streams))
		if uint64(n) > in.MaxNum {
			c.monfail("incoming/bound", fmt.Sprintf("%d incoming streams open, limit %d", n, in.MaxNum))
		}
		// what the peer may still open + what it holds open never exceeds the limit
		var m int64
		if in.Max >= 0 {
			m = in.Max/4 + 1
		}
		o := in.NextOpen / 4
		if m < o || uint64(m-o+n) > in.MaxNum {
			c.monfail("incoming/credit", fmt.Sprintf("peer may open up to stream number %d, has opened %d, %d still open: exceeds limit %d", m, o, n, in.MaxNum))
		}
		if m != c.advIn[t] && !(m == 0 && c.advIn[t] == 0) {
			c.monfail("incoming/enforced-vs-advertised", fmt.Sprintf("enforced stream limit %d differs from the advertised one %d", m, c.advIn[t]))
		}
		// every stream the peer opened is handed to a waiting AcceptStream
		na := 0
		for _, x := range c.acceptors {
			if x.uni == (t == 1) && x.gen == c.gen {
				na++
			}
		}
		if na > 0 && in.Closed {
			c.monfail("accept/blocked-after-close", fmt.Sprintf("%d AcceptStream callers stay blocked after CloseWithError", na))
		}
		if na > 0 && !in.Closed && c.accepted[t] < o {
			c.monfail("accept/stuck", fmt.Sprintf("%d AcceptStream callers stay blocked although the peer opened %d streams and %d were accepted", na, o, c.accepted[t]))
		}
		out := c.v.SnapOut(t == 1)
		pw := c.parkedWaiters(t == 1)
		if len(pw) > 0 && !out.Closed && c.openedOut[t] < c.peerMax[t] {
			c.monfail("fifo/credit-unused", fmt.Sprintf("%d OpenStreamSync callers stay blocked although the peer allows %d streams and %d are opened", len(pw), c.peerMax[t], c.openedOut[t]))
		}
		if len(pw) != len(out.Queue) {
			c.monfail("fifo/queue-length", fmt.Sprintf("%d callers blocked, openQueue has %d entries", len(pw), len(out.Queue)))
		}
	}
}

// smHookCtx is a context whose Done() runs a hook the first time it is evaluated, i.e. on the
// OpenStreamSync goroutine after it enqueued itself and released the mutex, right before it
// blocks in the select. The hook returns an already closed channel: the context counts as
// cancelled from then on. This realises the schedule "credit arrives and the context is
// cancelled while the caller is between Unlock and select" without any race: the order of the
// critical sections is fixed, only the select's choice between two ready cases is the runtime's.
type smHookCtx struct {
	hook  func() <-chan struct{}
	once  sync.Once
	ch    <-chan struct{}
	fired atomic.Bool
}

func (h *smHookCtx) Deadline() (time.Time, bool) { return time.Time{}, false }
func (h *smHookCtx) Done() <-chan struct{} {
	h.once.Do(func() { h.ch = h.hook(); h.fired.Store(true) })
	return h.ch
}
func (h *smHookCtx) Err() error {
	if h.fired.Load() {
		return context.Canceled
	}
	return nil
}
func (h *smHookCtx) Value(any) any { return nil }

// tryRace: caller A becomes the head of an empty open queue; before A reaches its select, a
// second caller B queues up behind it, MAX_STREAMS arrives (wake-up token for A) and A's
// context is cancelled. Whichever select case A takes, B must not be forgotten.
func (c *smCase) tryRace() bool {
	r, v := c.r, c.v
	uni := r.Bool()
	t := smB2i(uni)
	out := v.SnapOut(uni)
	if c.closed || c.reset || len(out.Queue) != 0 || out.Closed || c.openedOut[t] < c.peerMax[t] {
		return false
	}
	a := &smCaller{uni: uni, gen: c.gen, w: c.nextW, cancel: func() {}}
	b := &smCaller{uni: uni, gen: c.gen, w: c.nextW + 1}
	c.nextW += 2
	n := c.peerMax[t] + r.Pick(1, 1, 2)
	f0, c0 := v.NumFrames(), v.NumCreated()
	var fA, fB, fM, fO int
	var bDone, cDone bool
	tryOpen := r.Intn(3) == 0
	trySync := !tryOpen && r.Intn(2) == 0
	var openID int64
	var openErr int
	cc := &smCaller{uni: uni, gen: c.gen, w: c.nextW}
	c.nextW++
	cctx, ccancel := context.WithCancel(context.Background())
	cc.cancel = ccancel
	closed := make(chan struct{})
	close(closed)
	bctx, bcancel := context.WithCancel(context.Background())
	b.cancel = bcancel
	hctx := &smHookCtx{}
	hctx.hook = func() <-chan struct{} {
		fA = v.NumFrames()
		c.spawn(b, bctx)
		synctest.Wait()
		bDone = b.finished.Load()
		if q := v.SnapOut(uni).Queue; len(q) > 0 && !bDone {
			b.ch = q[len(q)-1]
		}
		fB = v.NumFrames()
		v.MaxStreams(uni, n)
		fM = v.NumFrames()
		if tryOpen { // a non-blocking OpenStream must not overtake the waiting callers
			openID, openErr = v.Open(uni)
		}
		if trySync { // a new OpenStreamSync must queue up behind the waiting callers
			c.spawn(cc, cctx)
			synctest.Wait()
			cDone = cc.finished.Load()
			if q := v.SnapOut(uni).Queue; len(q) > 0 && !cDone {
				cc.ch = q[len(q)-1]
			}
		}
		fO = v.NumFrames()
		return closed
	}
	doneCh := make(chan struct{})
	go func() {
		defer close(doneCh)
		defer func() {
			if p := recover(); p != nil {
				a.panicked.Store(fmt.Sprint(p))
				a.err = 7
			}
			a.finished.Store(true)
		}()
		a.id, a.err = v.OpenSync(hctx, uni)
	}()
	<-doneCh
	synctest.Wait()
	if p := a.panicked.Load(); p != nil {
		c.monfail("panic", fmt.Sprintf("OpenStreamSync panicked: %v", p))
	}
	opA := u.App("OSyncCall", u.B(uni), u.Z(a.w), "false")
	if !hctx.fired.Load() { // A did not block at all
		if a.err == 0 {
			c.monOpened(uni, a.id, "OpenStreamSync")
		}
		c.step(opA, smRes(a.id, a.err, false), v.Frames(f0), fmt.Sprintf("opensync(%v,w%d,false)", uni, a.w))
		c.collect(v.NumFrames(), c0)
		return true
	}
	all := v.Frames(f0)
	c.step(opA, "RParked", all[:fA-f0], fmt.Sprintf("opensync(%v,w%d,false)", uni, a.w))
	c.blockedCheck(uni, "OpenStreamSync blocks", nil)
	c.waiters = append(c.waiters, a)
	opB := u.App("OSyncCall", u.B(uni), u.Z(b.w), "false")
	// B's state right after the hook's Wait cannot be read any more; it parked iff it is still
	// unfinished now or finished with a stream created after A's
	if bDone { // never on the unchanged code: the queue is not empty
		if b.err == 0 {
			c.monfail("fifo/overtaken-by-sync", fmt.Sprintf("OpenStreamSync returned stream %d at once while earlier callers are waiting", b.id))
			c.monOpened(uni, b.id, "OpenStreamSync")
		}
		c.step(opB, smRes(b.id, b.err, false), all[fA-f0:fB-f0], fmt.Sprintf("opensync(%v,w%d,false)", uni, b.w))
	} else {
		c.step(opB, "RParked", all[fA-f0:fB-f0], fmt.Sprintf("opensync(%v,w%d,false)", uni, b.w))
		c.waiters = append(c.waiters, b)
	}
	if n > c.peerMax[t] {
		c.peerMax[t] = n
	}
	c.step(u.App("OMaxStreams", u.B(uni), u.Z(n)), "RUnit", all[fB-f0:fM-f0], fmt.Sprintf("maxstreams(%v,%d)", uni, n))
	if tryOpen {
		if openErr == 0 {
			c.monfail("fifo/overtaken-by-open", fmt.Sprintf("OpenStream returned stream %d while OpenStreamSync callers are waiting", openID))
			c.monOpened(uni, openID, "OpenStream")
		}
		c.step(u.App("OOpen", u.B(uni)), smRes(openID, openErr, false), all[fM-f0:fO-f0], fmt.Sprintf("open(%v)", uni))
	}
	if trySync {
		opC := u.App("OSyncCall", u.B(uni), u.Z(cc.w), "false")
		// C finished inside the hook only if it did not queue up
		if cDone {
			if cc.err == 0 {
				c.monfail("fifo/overtaken-by-sync", fmt.Sprintf("OpenStreamSync returned stream %d at once while earlier callers are waiting", cc.id))
				c.monOpened(uni, cc.id, "OpenStreamSync")
			}
			c.step(opC, smRes(cc.id, cc.err, false), all[fM-f0:fO-f0], fmt.Sprintf("opensync(%v,w%d,false)", uni, cc.w))
		} else {
			c.step(opC, "RParked", all[fM-f0:fO-f0], fmt.Sprintf("opensync(%v,w%d,false)", uni, cc.w))
			c.waiters = append(c.waiters, cc)
		}
	}
	// A's own step comes first: its critical section precedes every wake-up it caused
	for i, y := range c.waiters {
		if y == a {
			c.waiters = append(c.waiters[:i:i], c.waiters[i+1:]...)
			break
		}
	}
	c.nwakes++
	if a.err == 0 {
		c.monOpened(uni, a.id, fmt.Sprintf("OpenStreamSync(waiter %d)", a.w))
		c.step(u.App("OSyncWake", u.B(uni), u.Z(a.w)), smRes(a.id, a.err, false), all[fO-f0:], fmt.Sprintf("wake(w%d)", a.w))
		c.raceTaken[0]++
	} else {
		c.step(u.App("OSyncCancel", u.B(uni), u.Z(a.w)), smRes(a.id, a.err, false), all[fO-f0:], fmt.Sprintf("cancel-with-token(w%d)", a.w))
		c.raceTaken[1]++
	}
	c.collect(v.NumFrames(), c0)
	return true
}

// completion of a stream succeeds exactly when the stream is open (opened by us or by the
// peer, not yet completed); anything else is a STREAM_STATE_ERROR.
func (c *smCase) monDelete(id int64, e int) {
	if id < 0 {
		return
	}
	uni := id%4 >= 2
	local := (id%2 == 0) == c.client
	t := smB2i(uni)
	n := c.peerOpen[t]
	if local {
		n = c.openedOut[t]
	}
	open := id/4 < n && !c.deleted[id]
	if open != (e == 0) {
		c.monfail("delete/result", fmt.Sprintf("DeleteStream(%d): error class %d, stream open: %v", id, e, open))
	}
}

// C15(a): credit is re-issued exactly as streams fully complete (accepted and completed):
// the advertised limit is the configured limit plus the number of such streams.
func (c *smCase) monCredit() {
	for t := 0; t < 2; t++ {
		var done int64
		for id := range c.deleted {
			if (id%4 >= 2) == (t == 1) && (id%2 == 0) != c.client && c.acceptedI[id] {
				done++
			}
		}
		if want := c.maxIn[t] + done; want <= 1<<60 && c.advIn[t] != want {
			c.monfail("incoming/credit-reissue", fmt.Sprintf("%d streams fully completed, limit %d: advertised MAX_STREAMS is %d, expected %d", done, c.maxIn[t], c.advIn[t], want))
		}
	}
}

// C15(b): a new limit is answered with STREAMS_BLOCKED only if it still leaves a caller blocked
// (checked when the bubble is quiescent after a MAX_STREAMS / transport parameters op).
func (c *smCase) monSpuriousBlocked(fr []quic.VerifSMFrame) {
	for _, f := range fr {
		if f.Blocked && len(c.parkedWaiters(f.Uni)) == 0 {
			c.monfail("blocked/spurious", fmt.Sprintf("STREAMS_BLOCKED(%d) queued on a new limit although no caller remains blocked", f.Num))
		}
	}
}

// C15(b): whenever opening fails or blocks because of the peer's limit, a STREAMS_BLOCKED for
// that limit has been queued (now or earlier).
func (c *smCase) blockedCheck(uni bool, what string, _ []quic.VerifSMFrame) {
	t := smB2i(uni)
	if !c.blockedAt[t][c.peerMax[t]] {
		c.monfail("blocked/missing", fmt.Sprintf("%s at limit %d but no STREAMS_BLOCKED was queued for that limit", what, c.peerMax[t]))
	}
}

func (c *smCase) spawn(x *smCaller, ctx context.Context) {
	go c.run(x, ctx)
}

func (c *smCase) run(x *smCaller, ctx context.Context) {
	defer func() {
		if p := recover(); p != nil {
			x.panicked.Store(fmt.Sprint(p))
			x.err = 7
		}
		x.finished.Store(true)
	}()
	if x.accept {
		x.id, x.err = c.v.Accept(ctx, x.uni)
	} else {
		x.id, x.err = c.v.OpenSync(ctx, x.uni)
	}
}

// pickID chooses a stream ID for a frame / completion, biased to the boundaries.
// kind: 0 = any class, 1 = mostly classes valid for a receive-side frame, 2 = send-side.
func (c *smCase) pickID(kind int) int64 {
	r := c.r
	uni, byClient := r.Bool(), r.Bool()
	if kind != 0 && r.Chance(3, 4) {
		local := byClient == c.client
		if kind == 1 && uni && local || kind == 2 && uni && !local {
			byClient = !byClient
		}
	}
	first := smFirst(uni, byClient)
	var k int64
	if byClient == c.client { // locally initiated
		out := c.v.SnapOut(uni)
		n := out.Next / 4
		k = n + r.Pick(-2, -1, -1, 0, 0, 1, 2)
		if r.Chance(1, 5) {
			k = int64(r.Intn(int(n) + 2))
		}
	} else {
		in := c.v.SnapIn(uni)
		o := in.NextOpen / 4
		var m int64
		if in.Max >= 0 {
			m = in.Max/4 + 1
		}
		switch r.Intn(8) {
		case 0, 1:
			k = o + r.Pick(-2, -1, 0, 1)
		case 2, 3:
			k = m + r.Pick(-2, -1, -1, 0, 0, 1) // m-1 is the last allowed index
		case 4:
			k = o
		case 5:
			k = int64(r.Intn(int(smMin64(m, o+6)) + 2))
		case 6:
			if len(in.Streams) > 0 {
				k = in.Streams[r.Intn(len(in.Streams))][0] / 4
			}
		default:
			k = int64(r.Intn(int(o) + 1))
		}
		// never ask the implementation to create more than a handful of streams at once
		if k < m && k > o+6 {
			k = o + 6
		}
		if m < 1<<50 && r.Chance(1, 40) {
			k = r.Pick(1<<60-1, 1<<60, 1<<59)
		}
	}
	if k < 0 {
		k = 0
	}
	return first + 4*k
}

func smMin64(a, b int64) int64 {
	if a < b {
		return a
	}
	return b
}

func (c *smCase) ext(f func()) (frames []quic.VerifSMFrame, frameEnd, createdFrom int) {
	f0, c0 := c.v.NumFrames(), c.v.NumCreated()
	f()
	synctest.Wait()
	// frames queued by the external op itself and by wake-ups cannot be told apart by time;
	// wake-ups never queue frames (checked by the model on every case), so all go to the op.
	return c.v.Frames(f0), c.v.NumFrames(), c0
}

// smForced fixes the choices of one doOp call.
type smForced struct {
	k   int // op kind, as the ranges of doOp's switch
	id  int64
	uni bool
	n   int64 // MAX_STREAMS: increment over the current limit
	idx int   // which blocked caller to cancel (-1: the newest)
}

func (c *smCase) doOp() {
	r := c.r
	v := c.v
	f := c.forced
	if f == nil && r.Chance(1, 14) && c.tryRace() {
		return
	}
	if f == nil && r.Chance(1, 10) && c.tryAcceptStorm() {
		return
	}
	k := r.Intn(100)
	switch {
	case f != nil:
		k = f.k
	case c.profile == 1 && r.Chance(3, 5): // outgoing-heavy: Open, OpenSync, cancels, MAX_STREAMS
		k = 60 + r.Intn(36)
	case c.profile == 2 && r.Chance(3, 5): // incoming-heavy: receive-side frames, completions, Accept
		k = r.Intn(48)
		if k >= 22 {
			k += 12
		}
	}
	if f == nil && k >= 98 && r.Chance(1, 2) {
		k = r.Intn(98)
	}
	if f == nil && c.closed {
		// CloseWithError is the connection's last act: the run loop has ended, no peer frame
		// is handled any more; the application may still call Open/Accept and complete streams.
		// (GetOrOpenStream after CloseWithError would panic: send on the closed newStreamChan.)
		k = 34 + r.Intn(54)
	}
	switch {
	case k < 22: // receive-side frame (STREAM, RESET_STREAM, STREAM_DATA_BLOCKED)
		id := c.pickID(1)
		if f != nil {
			id = f.id
		}
		var got int64
		var e, e2 int
		fr, fe, cf := c.ext(func() {
			got, e = v.Recv(id)
			if r.Chance(1, 3) {
				e2 = v.HandleStreamDataBlocked(id)
			} else {
				e2 = e
			}
		})
		c.monFrameDispatch(id, got, e, true)
		if e2 != e {
			c.monfail("dispatch/handler-disagrees", fmt.Sprintf("HandleStreamDataBlockedFrame(%d) error class %d, getReceiveStream %d", id, e2, e))
		}
		c.step(u.App("ORecv", u.Z(id)), smRes(got, e, false), fr, fmt.Sprintf("recv(%d)", id))
		c.collect(fe, cf)
	case k < 34: // send-side frame (MAX_STREAM_DATA, STOP_SENDING)
		id := c.pickID(2)
		var got int64
		var e, e2 int
		fr, fe, cf := c.ext(func() {
			got, e = v.Send(id)
			if r.Chance(1, 3) {
				e2 = v.HandleMaxStreamData(id)
			} else {
				e2 = e
			}
		})
		c.monFrameDispatch(id, got, e, false)
		if e2 != e {
			c.monfail("dispatch/handler-disagrees", fmt.Sprintf("HandleMaxStreamDataFrame(%d) error class %d, getSendStream %d", id, e2, e))
		}
		c.step(u.App("OSend", u.Z(id)), smRes(got, e, false), fr, fmt.Sprintf("send(%d)", id))
		c.collect(fe, cf)
	case k < 50: // stream completed
		var id int64
		var cands []int64
		for t := 0; t < 2; t++ {
			for _, s := range v.SnapIn(t == 1).Streams {
				cands = append(cands, s[0])
			}
			cands = append(cands, v.SnapOut(t == 1).Streams...)
		}
		if len(cands) > 0 && r.Chance(5, 6) {
			id = cands[r.Intn(len(cands))]
		} else {
			id = c.pickID(0)
		}
		if f != nil {
			id = f.id
		}
		var e int
		fr, fe, cf := c.ext(func() { e = v.Delete(id) })
		c.monDelete(id, e)
		if e == 0 {
			c.deleted[id] = true
		}
		c.step(u.App("ODelete", u.Z(id)), smRes(-1, e, true), fr, fmt.Sprintf("delete(%d)", id))
		c.collect(fe, cf)
	case k < 60: // AcceptStream
		uni := r.Bool()
		if f != nil {
			uni = f.uni
		}
		c.acceptCall(uni)
	case k < 68: // OpenStream
		uni := r.Bool()
		if f != nil {
			uni = f.uni
		}
		var id int64
		var e int
		fr, fe, cf := c.ext(func() { id, e = v.Open(uni) })
		if e == 0 {
			if len(c.parkedWaiters(uni)) > 0 {
				c.monfail("fifo/overtaken-by-open", fmt.Sprintf("OpenStream returned stream %d while OpenStreamSync callers are waiting", id))
			}
			c.monOpened(uni, id, "OpenStream")
		} else if e == smErrLimitReached && len(c.parkedWaiters(uni)) == 0 && c.openedOut[smB2i(uni)] < c.peerMax[smB2i(uni)] {
			c.monfail("open/refused-below-limit", fmt.Sprintf("OpenStream failed with %d of %d streams opened and nobody waiting", c.openedOut[smB2i(uni)], c.peerMax[smB2i(uni)]))
		}
		c.step(u.App("OOpen", u.B(uni)), smRes(id, e, false), fr, fmt.Sprintf("open(%v)", uni))
		if e == smErrLimitReached {
			c.blockedCheck(uni, "OpenStream fails", nil)
		}
		c.collect(fe, cf)
	case k < 80: // OpenStreamSync
		uni := r.Bool()
		pre := r.Chance(1, 10)
		if f != nil {
			uni, pre = f.uni, false
		}
		x := &smCaller{uni: uni, gen: c.gen, w: c.nextW}
		c.nextW++
		ctx, cancel := context.WithCancel(context.Background())
		x.cancel = cancel
		if pre {
			cancel()
		}
		fr, fe, cf := c.ext(func() { c.spawn(x, ctx) })
		op := u.App("OSyncCall", u.B(uni), u.Z(x.w), u.B(pre))
		if x.finished.Load() {
			if p := x.panicked.Load(); p != nil {
				c.monfail("panic", fmt.Sprintf("OpenStreamSync panicked: %v", p))
			}
			if x.err == 0 {
				if len(c.parkedWaiters(uni)) > 0 {
					c.monfail("fifo/overtaken-by-sync", fmt.Sprintf("OpenStreamSync returned stream %d at once while earlier callers are waiting", x.id))
				}
				c.monOpened(uni, x.id, "OpenStreamSync")
			}
			c.step(op, smRes(x.id, x.err, false), fr, fmt.Sprintf("opensync(%v,w%d,%v)", uni, x.w, pre))
		} else {
			q := v.SnapOut(uni).Queue
			if len(q) > 0 {
				x.ch = q[len(q)-1]
			}
			c.waiters = append(c.waiters, x)
			c.step(op, "RParked", fr, fmt.Sprintf("opensync(%v,w%d,%v)", uni, x.w, pre))
			c.blockedCheck(uni, "OpenStreamSync blocks", nil)
		}
		c.collect(fe, cf)
	case k < 86: // cancel a blocked OpenStreamSync
		if len(c.waiters) == 0 {
			return
		}
		x := c.waiters[r.Intn(len(c.waiters))]
		if f != nil {
			x = c.waiters[0]
			if f.idx < 0 {
				x = c.waiters[len(c.waiters)-1]
			}
		}
		fr, fe, cf := c.ext(func() { x.cancel() })
		if !x.finished.Load() {
			c.monfail("cancel/still-blocked", fmt.Sprintf("OpenStreamSync waiter %d did not return after its context was cancelled", x.w))
			return
		}
		for i, y := range c.waiters {
			if y == x {
				c.waiters = append(c.waiters[:i:i], c.waiters[i+1:]...)
				break
			}
		}
		c.step(u.App("OSyncCancel", u.B(x.uni), u.Z(x.w)), smRes(x.id, x.err, false), fr, fmt.Sprintf("cancel(w%d)", x.w))
		c.collect(fe, cf)
	case k < 88: // cancel a blocked AcceptStream
		if len(c.acceptors) == 0 {
			return
		}
		x := c.acceptors[r.Intn(len(c.acceptors))]
		if f != nil {
			x = c.acceptors[0]
		}
		fr, fe, cf := c.ext(func() { x.cancel() })
		if !x.finished.Load() {
			c.monfail("cancel/still-blocked", "AcceptStream did not return after its context was cancelled")
			return
		}
		for i, y := range c.acceptors {
			if y == x {
				c.acceptors = append(c.acceptors[:i:i], c.acceptors[i+1:]...)
				break
			}
		}
		c.step(u.App("OAcceptCancel", u.B(x.uni), u.Z(x.w)), smRes(x.id, x.err, false), fr, fmt.Sprintf("acceptcancel(a%d)", x.w))
		c.collect(fe, cf)
	case k < 96: // MAX_STREAMS
		uni := r.Bool()
		t := smB2i(uni)
		n := c.peerMax[t] + r.Pick(-1, 0, 1, 1, 1, 2, 2, 3, 5)
		if r.Chance(1, 12) {
			n = r.Pick(0, 1, 1<<60, 1<<60-1)
		}
		if f != nil {
			uni, t = f.uni, smB2i(f.uni)
			n = c.peerMax[t] + f.n
		}
		if n < 0 {
			n = 0
		}
		if n > c.peerMax[t] {
			c.peerMax[t] = n
		}
		fr, fe, cf := c.ext(func() { v.MaxStreams(uni, n) })
		c.step(u.App("OMaxStreams", u.B(uni), u.Z(n)), "RUnit", fr, fmt.Sprintf("maxstreams(%v,%d)", uni, n))
		c.collect(fe, cf)
		c.monSpuriousBlocked(fr)
	case k < 98: // transport parameters
		nb := c.peerMax[0] + r.Pick(-1, 0, 1, 2, 4)
		nu := c.peerMax[1] + r.Pick(-1, 0, 1, 2, 4)
		if nb < 0 {
			nb = 0
		}
		if nu < 0 {
			nu = 0
		}
		if nb > c.peerMax[0] {
			c.peerMax[0] = nb
		}
		if nu > c.peerMax[1] {
			c.peerMax[1] = nu
		}
		rsa := r.Bool()
		fr, fe, cf := c.ext(func() { v.TransportParams(nb, nu, rsa) })
		c.step(u.App("OTransportParams", u.Z(nb), u.Z(nu), u.B(rsa)), "RUnit", fr, fmt.Sprintf("tparams(%d,%d,%v)", nb, nu, rsa))
		c.collect(fe, cf)
		c.monSpuriousBlocked(fr)
	default:
		switch {
		case c.reset && r.Chance(2, 3):
			c.reset = false
			fr, fe, cf := c.ext(func() { v.UseReset() })
			c.step("OUseReset", "RUnit", fr, "usereset")
			c.collect(fe, cf)
		case !c.closed && r.Chance(1, 2):
			// 0-RTT rejected: all maps replaced; counters of the monitors restart
			fr, fe, cf := c.ext(func() { v.Reset() })
			c.gen++
			c.reset = true
			c.advIn = c.maxIn
			c.peerMax = [2]int64{}
			c.openedOut = [2]int64{}
			c.accepted = [2]int64{}
			c.blockedAt = [2]map[int64]bool{{}, {}}
			c.deleted = map[int64]bool{}
			c.acceptedI = map[int64]bool{}
			c.peerOpen = [2]int64{}
			c.step("OReset", "RUnit", fr, "reset")
			c.collect(fe, cf)
		case !c.closed:
			c.closed = true
			fr, fe, cf := c.ext(func() { v.Close() })
			c.step(u.App("OClose", "4"), "RUnit", fr, "close")
			c.collect(fe, cf)
		}
	}
}

// C15(d): frames for a stream of the wrong direction or a never-opened local stream raise
// STREAM_STATE_ERROR, frames beyond the advertised MAX_STREAMS raise STREAM_LIMIT_ERROR,
// and nothing else does.
func (c *smCase) monFrameDispatch(id, got int64, e int, recv bool) {
	uni := id%4 >= 2
	byClient := id%2 == 0
	local := byClient == c.client
	t := smB2i(uni)
	kind := "send"
	if recv {
		kind = "receive"
	}
	wantState := false
	switch {
	case uni && local && recv: // our send-only stream
		wantState = true
	case uni && !local && !recv: // peer's send-only stream: we can't send on it
		wantState = true
	case local: // not yet opened by us
		wantState = id >= smFirst(uni, c.client)+4*c.openedOut[t]
	}
	if wantState != (e == smErrState) {
		c.monfail("dispatch/state-error", fmt.Sprintf("%s-side frame for stream %d: error class %d, STREAM_STATE_ERROR expected: %v", kind, id, e, wantState))
		return
	}
	if wantState {
		return
	}
	if !local {
		// peer-initiated: allowed iff within the advertised MAX_STREAMS
		wantLimit := id/4+1 > c.advIn[t]
		if wantLimit != (e == smErrLimit) {
			c.monfail("incoming/limit-error", fmt.Sprintf("%s-side frame for peer stream %d (number %d), advertised limit %d: error class %d", kind, id, id/4+1, c.advIn[t], e))
			return
		}
	}
	if !local && e == 0 && id/4+1 > c.peerOpen[t] {
		c.peerOpen[t] = id/4 + 1
	}
	if e != 0 && e != smErrLimit {
		c.monfail("dispatch/unexpected-error", fmt.Sprintf("%s-side frame for stream %d: error class %d", kind, id, e))
	}
	if e == 0 && got >= 0 && c.deleted[id] {
		c.monfail("dispatch/deleted-not-ignored", fmt.Sprintf("%s-side frame for completed stream %d was dispatched to a stream instead of being ignored", kind, id))
	}
	if e == 0 && got >= 0 && got != id {
		c.monfail("dispatch/wrong-stream", fmt.Sprintf("%s-side frame for stream %d was dispatched to stream %d", kind, id, got))
	}
}

func (c *smCase) snapIn(uni bool) string {
	var parked []int64
	for _, x := range c.acceptors {
		if x.uni == uni && x.gen == c.gen {
			parked = append(parked, x.w)
		}
	}
	s := smSnapIn(c.v.SnapIn(uni))
	return s[:len(s)-1] + ", " + u.ZList(parked) + ")"
}

func smSnapIn(s quic.VerifSMIn) string {
	ss := make([]string, len(s.Streams))
	for i, e := range s.Streams {
		ss[i] = u.Pair(u.Z(e[0]), u.B(e[1] == 1))
	}
	return u.Pair(u.Z(s.NextAccept), u.Z(s.NextOpen), u.Z(s.Max), u.List(ss), u.B(s.Closed))
}

func (c *smCase) snapOut(s quic.VerifSMOut) string {
	q := make([]string, len(s.Queue))
	for i, ch := range s.Queue {
		w := int64(-1)
		for _, x := range c.waiters {
			if x.ch == ch {
				w = x.w
			}
		}
		q[i] = u.Pair(u.Z(w), u.B(s.Tokens[i] > 0))
	}
	return u.Pair(u.Z(s.Next), u.Z(s.Max), u.B(s.BlockedSent), u.ZList(s.Streams), u.List(q), u.B(s.Closed))
}

// smScript: one history of a small universe. Symbols (all on bidirectional streams):
// 0 frame for the next stream the peer may open, 1 frame for the one after it (skips one),
// 2 AcceptStream, 3 / 4 complete the lowest / highest open peer stream,
// 5 OpenStream, 6 OpenStreamSync, 7 / 8 cancel the oldest / newest blocked caller,
// 9 / 10 MAX_STREAMS +1 / +2, 11 cancel the oldest blocked AcceptStream caller.
// At most 2 AcceptStream callers and 2 OpenStreamSync callers are blocked at a time (a symbol
// that would add a third one is skipped).
type smScript struct {
	client bool
	maxIn  int64
	ops    []int
}

func (c *smCase) resolve(code int) *smForced {
	in := c.v.SnapIn(false)
	first := smFirst(false, !c.client)
	pick := func(highest bool) int64 {
		id := first
		found := false
		for _, s := range in.Streams {
			if s[1] == 0 && (!found || highest) {
				id, found = s[0], true
			}
		}
		return id
	}
	switch code {
	case 0:
		return &smForced{k: 0, id: in.NextOpen}
	case 1:
		return &smForced{k: 0, id: in.NextOpen + 4}
	case 2:
		return &smForced{k: 50}
	case 3:
		return &smForced{k: 34, id: pick(false)}
	case 4:
		return &smForced{k: 34, id: pick(true)}
	case 5:
		return &smForced{k: 60}
	case 6:
		return &smForced{k: 68}
	case 7:
		return &smForced{k: 80}
	case 8:
		return &smForced{k: 80, idx: -1}
	case 9:
		return &smForced{k: 88, n: 1}
	case 11:
		return &smForced{k: 86}
	}
	return &smForced{k: 88, n: 2}
}

func runSMCase(w *bufio.Writer, r *u.Rng, dist map[string]int, script *smScript) {
	c := &smCase{w: w, r: r, failed: map[string]bool{}, deleted: map[int64]bool{}, acceptedI: map[int64]bool{}}
	c.client = r.Bool()
	lim := func() int64 {
		if r.Chance(1, 16) {
			return r.Pick(1<<60, 1<<60-1, 1<<60-1, 1<<60-2)
		}
		return r.Pick(0, 1, 1, 2, 2, 3, 4, 100)
	}
	c.maxIn = [2]int64{lim(), lim()}
	if script != nil {
		c.client = script.client
		c.maxIn = [2]int64{script.maxIn, 1}
	}
	c.advIn = c.maxIn
	c.blockedAt = [2]map[int64]bool{{}, {}}
	nops := r.Range(4, 36)
	c.profile = r.Intn(3)
	synctest.Run(func() {
		defer func() {
			// let every blocked goroutine go, otherwise the bubble cannot end
			for _, x := range c.waiters {
				x.cancel()
			}
			for _, x := range c.acceptors {
				x.cancel()
			}
			synctest.Wait()
		}()
		defer func() {
			if p := recover(); p != nil {
				c.monfail("panic", fmt.Sprintf("panic: %v", p))
			}
			c.flush()
		}()
		c.v = quic.NewVerifSM(c.client, uint64(c.maxIn[0]), uint64(c.maxIn[1]))
		if script == nil && r.Chance(2, 3) { // most connections learn the peer's limits before anything else
			nb, nu := r.Pick(0, 1, 2, 3, 5), r.Pick(0, 1, 2, 3, 5)
			c.peerMax = [2]int64{nb, nu}
			rsa := r.Chance(1, 3)
			fr, fe, cf := c.ext(func() { c.v.TransportParams(nb, nu, rsa) })
			c.step(u.App("OTransportParams", u.Z(nb), u.Z(nu), u.B(rsa)), "RUnit", fr, fmt.Sprintf("tparams(%d,%d,%v)", nb, nu, rsa))
			c.collect(fe, cf)
		}
		c.flush()
		if script != nil {
			nops = 0
			for _, code := range script.ops {
				if len(c.failed) != 0 {
					break
				}
				if code == 2 && len(c.acceptors) >= 2 || code == 6 && len(c.waiters) >= 2 {
					continue
				}
				c.forced = c.resolve(code)
				c.doOp()
				c.monState()
				c.monCredit()
				c.flush()
			}
		}
		for i := 0; i < nops && len(c.failed) == 0; i++ {
			c.doOp()
			c.monState()
			c.monCredit()
			c.flush()
		}
		rsaFlag, rsaIDs := c.v.ResetStreamAtSnapshot()
		final := u.App("SMCase", u.B(c.client), u.Z(c.maxIn[0]), u.Z(c.maxIn[1]), u.List(c.steps),
			c.snapIn(false), c.snapIn(true), c.snapOut(c.v.SnapOut(false)), c.snapOut(c.v.SnapOut(true)), u.B(c.v.IsReset()), u.B(rsaFlag), u.ZList(rsaIDs))
		nt := 0
		if c.nframes > 0 || c.nwakes > 0 {
			nt = 1
		}
		fmt.Fprintf(w, "CASE %d %s\n", nt, final)
		if script != nil {
			dist["exhaustive-cases"]++
		}
		if dist["cases"] == 0 {
			fmt.Fprintf(w, "SAMPLE\tclient=%v maxBidi=%d maxUni=%d: %s\n", c.client, c.maxIn[0], c.maxIn[1], strings.Join(c.desc, " "))
		}
		dist["cases"]++
		dist["steps"] += len(c.steps)
		dist["frames"] += c.nframes
		dist["wakeups"] += c.nwakes
		if c.gen > 0 {
			dist["with-0rtt-reset"]++
		}
		dist["accept-storm-parked"] += c.storms[0]
		dist["accept-storm-queued-on-mutex"] += c.storms[1]
		dist["accept-storm-both"] += c.storms[2]
		dist["race-token-taken"] += c.raceTaken[0]
		dist["race-cancel-with-token-pending"] += c.raceTaken[1]
		if c.closed {
			dist["with-close"]++
		}
	})
}

// smAcceptLostWakeupProbe: two concurrent AcceptStream callers. Caller A found no stream and is
// between Unlock and its select (hook: its ctx.Done() is being evaluated) when one frame opens
// two streams (one wake-up token is buffered, the second send is dropped) and caller B's
// AcceptStream drains that token and takes the first stream. A then blocks in the select. No
// lost wake-up means: A must not stay blocked while the second stream is waiting to be accepted.
func smAcceptLostWakeupProbe(w *bufio.Writer) {
	reported := false
	for _, client := range []bool{false, true} {
		for _, uni := range []bool{false, true} {
			// j streams opened by one frame, nb other AcceptStream calls before A reaches its select
			for _, jn := range [][2]int64{{2, 1}, {1, 0}, {1, 1}, {2, 0}, {2, 2}, {3, 1}, {3, 2}} {
				j, nb := jn[0], jn[1]
				synctest.Run(func() {
					v := quic.NewVerifSM(client, 10, 10)
					first := smFirst(uni, !client)
					var gotB []int64
					h := &smHookCtx{}
					h.hook = func() <-chan struct{} {
						v.Recv(first + 4*(j-1))
						for i := int64(0); i < nb; i++ {
							id, e := v.Accept(context.Background(), uni)
							if e != 0 {
								id = -int64(e)
							}
							gotB = append(gotB, id)
						}
						return nil // never cancelled
					}
					var done atomic.Bool
					var idA int64
					var eA int
					go func() {
						idA, eA = v.Accept(h, uni)
						done.Store(true)
					}()
					synctest.Wait()
					in := v.SnapIn(uni)
					if !done.Load() && in.NextAccept < in.NextOpen && !reported {
						reported = true
						fmt.Fprintf(w, "MONFAIL\tstreamsmap/accept/lost-wakeup\tan AcceptStream caller stays blocked although a stream is waiting to be accepted\tclient=%v uni=%v: A=AcceptStream finds no stream; before A reaches its select: one frame opens %d streams (%d..%d) and %d other AcceptStream calls return %v; A blocks in the select although stream %d is open and unaccepted (nextStreamToAccept=%d nextStreamToOpen=%d)\n",
							client, uni, j, first, first+4*(j-1), nb, gotB, in.NextAccept, in.NextAccept, in.NextOpen)
					}
					ok := true
					for i, id := range gotB {
						ok = ok && id == first+4*int64(i)
					}
					if done.Load() && (eA != 0 || idA != first+4*nb) || !ok {
						fmt.Fprintf(w, "MONFAIL\tstreamsmap/accept/order\tconcurrent AcceptStream callers got the wrong streams\tclient=%v uni=%v j=%d: A got %d (error %d), the others got %v\n", client, uni, j, idA, eA, gotB)
					}
					v.Recv(first + 4*j) // lets A go in any case
					synctest.Wait()
					v.Close()
					synctest.Wait()
				})
			}
		}
	}
}

func runStreamsMap(w *bufio.Writer, seed uint64, n int, _ []string) {
	r := u.NewRng(seed)
	dist := map[string]int{}
	smAcceptLostWakeupProbe(w)
	// RESET_STREAM_AT must only be used when the peer sent the reset_stream_at transport parameter:
	// a 0-RTT client applies the server's parameters to the streams it already opened.
	for _, uni := range []bool{false, true} {
		if rel := quic.VerifSMResetStreamAtProbe(uni, false, false); rel != 0 {
			fmt.Fprintf(w, "MONFAIL\tstreamsmap/reset-stream-at/not-negotiated\tstream opened during 0-RTT sends RESET_STREAM_AT although the peer did not enable it\tclient, uni=%v: HandleTransportParameters(restored, reset_stream_at absent); Open; Write(10 bytes); HandleTransportParameters(server's, reset_stream_at absent); SetReliableBoundary; CancelWrite => RESET_STREAM frame with ReliableSize %d (0 expected)\n", uni, rel)
		}
		if rel := quic.VerifSMResetStreamAtProbe(uni, false, true); rel != 10 {
			fmt.Fprintf(w, "MONFAIL\tstreamsmap/reset-stream-at/not-enabled\tstream opened during 0-RTT does not use RESET_STREAM_AT although the peer enabled it\tclient, uni=%v: as above with reset_stream_at present in the server's parameters => ReliableSize %d (10 expected)\n", uni, rel)
		}
	}
	for i := 0; i < n; i++ {
		runSMCase(w, r.Fork(), dist, nil)
	}
	if os.Getenv("VERIF_TIER") == "thorough" {
		// exhaustive small universes: every history of the given length (results of all
		// prefixes are part of the case); validation of the model, not a proof
		enum := func(client bool, maxIn int64, alphabet []int, length int) {
			idx := make([]int, length)
			for {
				ops := make([]int, length)
				for i, j := range idx {
					ops[i] = alphabet[j]
				}
				runSMCase(w, r.Fork(), dist, &smScript{client: client, maxIn: maxIn, ops: ops})
				i := length - 1
				for ; i >= 0; i-- {
					idx[i]++
					if idx[i] < len(alphabet) {
						break
					}
					idx[i] = 0
				}
				if i < 0 {
					return
				}
			}
		}
		enum(false, 2, []int{0, 1, 2, 3, 4}, 6)
		enum(true, 1, []int{0, 1, 2, 3, 4}, 5)
		enum(true, 2, []int{5, 6, 7, 8, 9, 10}, 5)
		// both directions together, with explicit AcceptStream callers: <= 2 blocked acceptors,
		// <= 2 blocked openers, limit 2
		enum(false, 2, []int{0, 2, 3, 6, 7, 9, 11}, 5)
		enum(true, 2, []int{0, 2, 3, 6, 9}, 7)
	}
	keys := make([]string, 0, len(dist))
	for k := range dist {
		keys = append(keys, k)
	}
	sort.Strings(keys)
	for _, k := range keys {
		fmt.Fprintf(w, "DIST\t%s\t%d\n", k, dist[k])
	}
}
