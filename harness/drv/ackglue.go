//go:build verif

package main

import (
	"bufio"
	"fmt"
	"sort"
	"strings"

	quic "github.com/refraction-networking/uquic"
	u "github.com/refraction-networking/uquic/internal/verifutil"
)

func init() { units["ackglue"] = runAckGlue }

// ackglue (property C06, clause "an ACK for a never sent or deliberately skipped packet number is a
// PROTOCOL_VIOLATION", at connection level): real server and client Conns (constructed, never run), with and
// without a qlog tracer, register 1-RTT packets with their own sentPacketHandler (sends and PTO expiries that skip
// packet numbers) and handle 1-RTT payloads [ACK][STREAM | PING | MAX_DATA | nothing] and [STREAM][ACK] through
// handleUnpackedShortHeaderPacket / handleFrames.
//
// CASE term: GlueCase client rnd0 [(op, oracle, class)...] skipped largestSent — the SentPH model replays the
// handler-level history; its ReceivedAck verdict must be the connection's error class for every packet, and the
// recorded skipped numbers / largest sent number must agree at the end.
//
// MONITORS (model-independent: from the packet numbers the harness saw returned by PopPacketNumber):
//	ackglue/bogus-ack-accepted        ACK with largest > largest sent, or covering one of the 4 most recent skipped
//	                                  numbers: the packet must fail with PROTOCOL_VIOLATION
//	ackglue/frame-handled-after-error a frame behind the failing ACK frame was handled (a stream was opened)
//	ackglue/valid-ack-rejected        ACK of sent numbers only: no error, and the frames next to it are handled
//	ackglue/tracer-frames             with a tracer, every frame of the packet is given to the trace
//	ackglue/other-error, ackglue/panic

const (
	agValid = iota
	agUnsent
	agSkipped
)

func agRanges(rs [][2]int64) string {
	t := make([]string, len(rs))
	for i, r := range rs {
		t[i] = u.Pair(u.Z(r[0]), u.Z(r[1]))
	}
	return u.List(t)
}

func agCase(w *bufio.Writer, r *u.Rng, client, tracer bool, dist map[string]int, failed map[string]bool) {
	var trace []string
	monfail := func(key, desc string) {
		if failed[key] {
			return
		}
		failed[key] = true
		fmt.Fprintf(w, "MONFAIL\tackglue/%s\t%s\tclient=%v qlog-tracer=%v history: %s\n", key, desc, client, tracer, strings.Join(trace, "; "))
	}
	v, err := quic.NewVerifAGConn(client, tracer)
	if err != nil {
		monfail("panic", "constructing the connection failed: "+err.Error())
		return
	}
	defer v.Shutdown()
	if v.HasTracer() != tracer {
		monfail("other-error", "tracer not attached as requested")
	}
	sph := v.SPH
	var steps []string
	orc := func() string {
		a, b, c := sph.Oracle()
		return u.Pair(u.Z(a), u.Z(b), u.Z(c))
	}
	add := func(op string, cls int64) {
		steps = append(steps, u.Pair(op, orc(), u.Z(cls)))
	}
	now := int64(1_000_000_000)
	sph.Drop(1, now)
	add(u.App("ODrop", u.Z(1), u.Z(now)), -2)
	sph.Drop(2, now)
	add(u.App("ODrop", u.Z(2), u.Z(now)), -2)
	trace = append(trace, "handshake confirmed")

	var sent []int64
	largest := int64(-1)
	nextID := int64(0)
	nextStream := int64(0)
	if client {
		nextStream = 1
	}
	skippedNow := func() []int64 { // numbers the history moved past that PopPacketNumber never returned to a sender
		in := map[int64]bool{}
		for _, p := range sent {
			in[p] = true
		}
		var sk []int64
		if len(sent) > 0 {
			// up to the highest number the history has seen: PTO expiries after the last send skip numbers too
			for q := sent[0]; q <= max(largest, sph.AppHighest()); q++ {
				if !in[q] {
					sk = append(sk, q)
				}
			}
		}
		return sk
	}
	send := func() {
		now += int64(r.Range(1, 20)) * 1_000_000
		ae := r.Chance(4, 5)
		var fs []int64
		if ae {
			fs = []int64{nextID}
			nextID++
		}
		size := r.Pick(45, 300, 1200)
		pn, rnd := sph.Send(4, now, -1, nil, fs, size, false, false)
		sent = append(sent, pn)
		largest = pn
		add(u.App("OSend", u.Z(4), u.Z(now), u.Z(-1), u.ZList(nil), u.ZList(fs), u.Z(size), u.B(false), u.B(false), u.Z(rnd)), -2)
		trace = append(trace, fmt.Sprintf("SentPacket pn=%d ackEliciting=%v", pn, ae))
		dist["sent"]++
	}
	nops := r.Range(6, 18)
	for i := 0; i < 3; i++ {
		send()
	}
	for i := 0; i < nops; i++ {
		x := r.Intn(10)
		switch {
		case x < 3:
			send()
		case x < 5:
			if a := sph.AlarmTime(); a > now {
				now = a
			} else {
				now += 50_000_000
			}
			_, rnd := sph.Timeout(now)
			add(u.App("OTimeout", u.Z(now), u.Z(rnd)), -2)
			trace = append(trace, "OnLossDetectionTimeout")
			if r.Bool() {
				send() // the probe packet: makes the skipped number lie below the largest sent
			}
			dist["timeouts"]++
		default:
			now += int64(r.Range(1, 30)) * 1_000_000
			sk := skippedNow()
			kind := agValid
			k := r.Intn(10)
			if k < 3 {
				kind = agUnsent
			} else if k < 6 && len(sk) > 0 {
				kind = agSkipped
			}
			var ranges [][2]int64
			switch kind {
			case agUnsent:
				top := largest + int64(r.Range(1, 3))
				ranges = [][2]int64{{max(0, top-int64(r.Intn(3))), top}}
			case agSkipped:
				rec := sk
				if len(rec) > 4 {
					rec = rec[len(rec)-4:]
				}
				p := rec[r.Intn(len(rec))]
				lo, hi := p, p
				if r.Bool() && p > 0 {
					lo = p - 1
				}
				if r.Bool() && p < largest {
					hi = p + 1
				}
				ranges = [][2]int64{{lo, hi}}
				if hi < largest && r.Bool() {
					ranges = [][2]int64{{largest, largest}, {lo, hi}}
					if hi+1 >= largest {
						ranges = [][2]int64{{lo, largest}}
					}
				}
			default:
				// single sent numbers out of the last few, as separate ranges where not adjacent
				in := map[int64]bool{}
				for _, p := range sent {
					in[p] = true
				}
				var picked []int64
				for q := largest; q >= 0 && q > largest-8; q-- {
					if in[q] && (q == largest || r.Bool()) {
						picked = append(picked, q)
					}
				}
				cur := [2]int64{picked[0], picked[0]}
				for _, q := range picked[1:] {
					if q == cur[0]-1 {
						cur[0] = q
					} else {
						ranges = append(ranges, cur)
						cur = [2]int64{q, q}
					}
				}
				ranges = append(ranges, cur)
			}
			follower := r.Intn(5)
			delay := r.Pick(0, 1_000_000, 8_000_000)
			before := v.PeerStreams()
			class, logged, msg := v.Packet(now, delay, ranges, follower, nextStream)
			after := v.PeerStreams()
			names := []string{"", " STREAM", " PING", " MAX_DATA", ""}
			pre := ""
			if follower == quic.VerifAGStreamFirst {
				pre = "STREAM "
			}
			trace = append(trace, fmt.Sprintf("packet [%sACK%v%s] -> class %d %s", pre, ranges, names[follower], class, msg))
			dist[[]string{"ack-valid", "ack-unsent", "ack-skipped"}[kind]]++
			dist[fmt.Sprintf("follower-%d", follower)]++
			if class == 7 {
				if strings.HasPrefix(msg, "panic") {
					monfail("panic", msg)
				} else {
					monfail("other-error", msg)
				}
				return
			}
			add(u.App("OAck", u.Z(4), u.Z(now), u.Z(delay), agRanges(ranges)), int64(class))
			if class == 0 {
				add(u.App("ORecvPacket", u.Z(4), u.Z(now)), -2)
			}
			nframes := 1
			if follower != quic.VerifAGNone {
				nframes = 2
			}
			if tracer && logged != nframes {
				monfail("tracer-frames", fmt.Sprintf("the trace received %d of %d frames", logged, nframes))
			}
			opened := after != before
			switch kind {
			case agValid:
				if class != 0 {
					monfail("valid-ack-rejected", fmt.Sprintf("ACK %v of sent packet numbers only was rejected: %s", ranges, msg))
				} else if (follower == quic.VerifAGStream || follower == quic.VerifAGStreamFirst) != opened {
					monfail("valid-ack-rejected", "the STREAM frame next to a valid ACK was not delivered (or a stream appeared without a STREAM frame)")
				}
			default:
				what := "a packet number above the largest sent"
				if kind == agSkipped {
					what = "a deliberately skipped packet number"
				}
				if class != 1 {
					monfail("bogus-ack-accepted", fmt.Sprintf("ACK %v acknowledges %s (sent %v, largest %d, skipped %v) but the packet was handled without PROTOCOL_VIOLATION", ranges, what, sent, largest, sk))
				}
				if follower == quic.VerifAGStream && opened {
					monfail("frame-handled-after-error", fmt.Sprintf("the STREAM frame behind the offending ACK %v was handled: stream %d was opened", ranges, nextStream))
				}
			}
			if opened {
				nextStream += 4
			}
		}
	}
	skm := sph.AppSkipped()
	fmt.Fprintf(w, "CASE 1 (GlueCase %s %s [%s] %s %s)\n", u.B(client), u.Z(sph.Rnd0), strings.Join(steps, "; "), u.ZList(skm), u.Z(sph.LargestSent(4)))
	if len(failed) == 0 && dist["samples"] < 2 {
		dist["samples"]++
		fmt.Fprintf(w, "SAMPLE\tclient=%v tracer=%v: %s\n", client, tracer, strings.Join(trace, "; "))
	}
}

func runAckGlue(w *bufio.Writer, seed uint64, n int, _ []string) {
	root := u.NewRng(seed)
	dist := map[string]int{}
	failed := map[string]bool{}
	for c := 0; c < n; c++ {
		r := root.Fork()
		client := c%2 == 1
		tracer := (c/2)%2 == 1
		agCase(w, r, client, tracer, dist, failed)
		dist[fmt.Sprintf("client=%v,tracer=%v", client, tracer)]++
	}
	delete(dist, "samples")
	keys := make([]string, 0, len(dist))
	for k := range dist {
		keys = append(keys, k)
	}
	sort.Strings(keys)
	for _, k := range keys {
		fmt.Fprintf(w, "DIST\t%s\t%d\n", k, dist[k])
	}
}
