//go:build verif

package main

// Unit `sendstream` (property C01, sender side): the real SendStream of /repo/send_stream.go
// with the real stream + connection flow controllers and a counting fake streamSender is
// driven through generated op lists inside a testing/synctest bubble (a blocked Write is a
// goroutine parked on writeChan; synctest.Wait() after every op = "the writer ran until it
// parked or returned").  Every case is printed as a Coq term for the model replay
// (coq/SendStream/Run.v) and checked by model-independent PROPERTY MONITORS:
//
//	sendstream/data            a frame's payload differs from the written bytes at its offset
//	sendstream/contig          new data does not start at the previous highest offset
//	sendstream/retx            a frame below the highest offset re-sends bytes that were not lost
//	sendstream/fin             FIN without Close, or not at the final offset
//	sendstream/fin-truncated-reliable-reset   FIN kept on a frame truncated to the reliable size (finding)
//	sendstream/lost-not-resent lost bytes (or a lost FIN) never re-emitted although the stream drained
//	sendstream/coverage        a byte below writeOffset is neither acked, outstanding nor queued
//	sendstream/after-reset     STREAM data emitted after a reset without reliable size / beyond it
//	sendstream/complete        completion reported twice, too early, or never after everything is acked
//	sendstream/size            frame longer than the budget
//	sendstream/datalen         popped frame without DataLenPresent
//	sendstream/window          more new bytes than the flow-control windows allow
//	sendstream/write-n         Write returned nil with n != len(p), or n > len(p)
//	sendstream/panic           the code panicked

import (
	"bufio"
	"bytes"
	"fmt"
	"sort"
	"strings"
	"testing/synctest"

	quic "github.com/refraction-networking/uquic"
	u "github.com/refraction-networking/uquic/internal/verifutil"
)

func init() {
	units["sendstream"] = runSendStream
	genSources = append(genSources, quic.VerifSSConsts)
}

// ---- deterministic payloads and checksums shared with Run.v ----

func ssGenData(n int, seed int64) []byte {
	b := make([]byte, n)
	x := seed
	for i := range b {
		x = (x*8121 + 28411) & 0xFFFFFF
		b[i] = byte((x >> 8) & 0xFF)
	}
	return b
}

func ssSum(b []byte) int64 {
	h := int64(7)
	for _, c := range b {
		h = (h*31 + int64(c)) & 0x3FFFFFFF
	}
	return h
}

const ssKeyBuffered = "sendstream/never-completes/write-buffered-after-reset"

const ssMinFrame = 128 // protocol.MinStreamFrameSize (cross-checked through Gen/Params.v)

type ssFrameRec struct {
	h      *quic.VerifSSFrame
	off    int64
	data   []byte
	fin    bool
	budget int64
}

type ssOut struct {
	frame   *ssFrameRec
	blocked bool
	blkAt   int64
	more    bool
	ctrl    *[3]int64
	ret     int64
	wres    *[3]int64
	hd, hc  int
	done    int
}

func (o *ssOut) term() string {
	fr := "None"
	if o.frame != nil {
		fr = u.Opt(true, u.Pair(u.Z(o.frame.off), u.Z(int64(len(o.frame.data))), u.B(o.frame.fin), u.Z(ssSum(o.frame.data))))
	}
	ct := "None"
	if o.ctrl != nil {
		ct = u.Opt(true, u.Pair(u.Z(o.ctrl[0]), u.Z(o.ctrl[1]), u.Z(o.ctrl[2])))
	}
	wr := "None"
	if o.wres != nil {
		wr = u.Opt(true, u.Pair(u.Z(o.wres[0]), u.Z(o.wres[1]), u.Z(o.wres[2])))
	}
	return u.App("mkO", fr, u.Opt(o.blocked, u.Z(o.blkAt)), u.B(o.more), ct, u.Z(o.ret), wr,
		u.Z(int64(o.hd)), u.Z(int64(o.hc)), u.Z(int64(o.done)))
}

type ssRange struct{ lo, hi int64 }

// ssSet is a set of byte offsets as sorted disjoint ranges.
type ssSet []ssRange

func (s ssSet) add(lo, hi int64) ssSet {
	if lo >= hi {
		return s
	}
	out := ssSet{}
	for _, r := range s {
		if r.hi < lo || r.lo > hi {
			out = append(out, r)
		} else {
			if r.lo < lo {
				lo = r.lo
			}
			if r.hi > hi {
				hi = r.hi
			}
		}
	}
	out = append(out, ssRange{lo, hi})
	sort.Slice(out, func(i, j int) bool { return out[i].lo < out[j].lo })
	return out
}

func (s ssSet) sub(lo, hi int64) ssSet {
	out := ssSet{}
	for _, r := range s {
		if r.hi <= lo || r.lo >= hi {
			out = append(out, r)
			continue
		}
		if r.lo < lo {
			out = append(out, ssRange{r.lo, lo})
		}
		if r.hi > hi {
			out = append(out, ssRange{hi, r.hi})
		}
	}
	return out
}

func (s ssSet) covers(lo, hi int64) bool {
	if lo >= hi {
		return true
	}
	for _, r := range s {
		if r.lo <= lo && hi <= r.hi {
			return true
		}
	}
	return false
}

func (s ssSet) firstGapBelow(n int64) int64 {
	pos := int64(0)
	for _, r := range s {
		if r.lo > pos {
			break
		}
		if r.hi > pos {
			pos = r.hi
		}
	}
	if pos >= n {
		return -1
	}
	return pos
}

// one generated history
type ssCase struct {
	w    *bufio.Writer
	r    *u.Rng
	idx  int
	seed uint64

	sid        int64
	rsa        bool
	swin, cwin int64

	v *quic.VerifSendStream

	ops  []string // Coq terms "(op, out)"
	desc []string // human-readable op list (for MONFAIL detail)

	// writer goroutine
	writing  bool
	wdone    chan [3]int64
	wlen     int
	lastHD   int
	lastHC   int
	lastDone int

	// monitor state (independent of the model)
	written     []byte // every byte handed to an accepted Write call
	closed      bool
	reset       bool // CancelWrite or STOP_SENDING happened
	relAtReset  int64
	everEnabled bool
	shutdown    bool
	nextNew     int64 // highest offset of new data so far
	lostPending ssSet // lost and not yet re-emitted
	lostFin     bool
	ackedSet    ssSet
	finAcked    bool
	finEmitted  bool
	outst       []*ssFrameRec
	outR        []*quic.VerifSSReset
	completions int
	panicked    bool
	failed      map[string]bool
	newBytes    int64
	maxSwin     int64
	maxCwin     int64
	nFrames     int
	nRetx       int
	nSplit      int
	panicKey    string // scripted cases: key under which an expected panic is reported
	infoOnly    bool   // scripted misuse scenarios: report as INFO, never as MONFAIL
	closedFirst bool   // Close was called before the reset (valid order)
}

func (c *ssCase) fail(key, desc string) {
	if key == "sendstream/panic" && c.panicKey != "" {
		key = c.panicKey
	}
	if c.failed[key] {
		return
	}
	c.failed[key] = true
	if c.infoOnly {
		fmt.Fprintf(c.w, "INFO\tobservation outside the theorems' hypothesis (reliable size raised after the reset; not registered as a finding) %s: %s ops=[%s]\n", key, desc, strings.Join(c.desc, " "))
		return
	}
	fmt.Fprintf(c.w, "MONFAIL\t%s\t%s\tseed=%d case=%d sid=%d rsa=%v swin=%d cwin=%d ops=[%s]\n", key, desc, c.seed, c.idx,
		c.sid, c.rsa, c.swin, c.cwin, strings.Join(c.desc, " "))
}

// exec runs one op on the implementation (with panic recovery), lets the writer goroutine
// run, collects callbacks, and logs the op together with its observables.
func (c *ssCase) exec(term, desc string, f func(o *ssOut)) *ssOut {
	o := &ssOut{}
	if c.panicked {
		return o
	}
	c.desc = append(c.desc, desc)
	func() {
		defer func() {
			if r := recover(); r != nil {
				c.panicked = true
				c.fail("sendstream/panic", fmt.Sprintf("panic: %v", r))
			}
		}()
		f(o)
	}()
	synctest.Wait()
	if c.writing {
		select {
		case res := <-c.wdone:
			c.writing = false
			o.wres = &res
			c.checkWriteResult(res)
		default:
		}
	}
	s := c.v.Sender
	o.hd, o.hc, o.done = s.HasData-c.lastHD, s.HasCtrl-c.lastHC, s.Completed-c.lastDone
	c.lastHD, c.lastHC, c.lastDone = s.HasData, s.HasCtrl, s.Completed
	c.completions += o.done
	c.ops = append(c.ops, u.Pair(term, o.term()))
	if !c.panicked {
		c.afterOp(o)
	}
	return o
}

func (c *ssCase) checkWriteResult(res [3]int64) {
	n, cls := res[0], res[1]
	if n > int64(c.wlen) || n < 0 || (cls == 0 && n != int64(c.wlen)) {
		c.fail("sendstream/write-n", fmt.Sprintf("Write of %d bytes returned n=%d errclass=%d", c.wlen, n, cls))
	}
	if sn := c.v.Snapshot(); cls == 0 && n > 0 && sn.Reset && sn.NextFrameLen > 0 && !sn.Shutdown {
		c.fail(ssKeyBuffered, fmt.Sprintf("Write of %d bytes returned (n=%d, nil) after the stream was reset: the writer woke up, found room because the reset dropped nextFrame, and buffered %d bytes that can never be sent; the stream can no longer complete", c.wlen, n, sn.NextFrameLen))
	}
}

// monitors evaluated after every op
func (c *ssCase) afterOp(o *ssOut) {
	sn := c.v.Snapshot()
	if c.completions > 1 {
		c.fail("sendstream/complete", "completion callback fired more than once")
	}
	if o.done > 0 && !c.reset && !c.shutdown {
		// without a reset the stream may only complete when FIN was sent and everything is acked
		if !c.finAcked || c.ackedSet.firstGapBelow(int64(len(c.written))) >= 0 || len(c.outst) > 0 {
			c.fail("sendstream/complete", fmt.Sprintf("completed early: finAcked=%v ackedGap=%d outstanding=%d", c.finAcked,
				c.ackedSet.firstGapBelow(int64(len(c.written))), len(c.outst)))
		}
	}
	if !c.reset && !c.shutdown {
		// coverage: every byte below writeOffset is acked, outstanding or queued for retransmission
		cov := append(ssSet{}, c.ackedSet...)
		for _, f := range c.outst {
			cov = cov.add(f.off, f.off+int64(len(f.data)))
		}
		for _, q := range sn.Retrans {
			cov = cov.add(q[0], q[0]+q[1])
		}
		if g := cov.firstGapBelow(sn.WriteOffset); g >= 0 {
			c.fail("sendstream/coverage", fmt.Sprintf("byte %d below writeOffset %d is neither acked, outstanding nor queued", g, sn.WriteOffset))
		}
		// queued retransmissions carry the right bytes
		for i, d := range c.v.RetransData() {
			off := sn.Retrans[i][0]
			if off+int64(len(d)) > int64(len(c.written)) || !bytes.Equal(d, c.written[off:off+int64(len(d))]) {
				c.fail("sendstream/data", fmt.Sprintf("queued retransmission at offset %d (len %d) differs from the written bytes", off, len(d)))
			}
		}
		if sn.WriteOffset != c.nextNew {
			c.fail("sendstream/contig", fmt.Sprintf("writeOffset %d but highest emitted offset %d", sn.WriteOffset, c.nextNew))
		}
	}
}

func (c *ssCase) onFrame(fr *ssFrameRec, budget int64) {
	c.nFrames++
	end := fr.off + int64(len(fr.data))
	// the framer never asks with less than MinStreamFrameSize left; a pure FIN frame ignores the budget
	if l := fr.h.Length(); l > budget && (len(fr.data) > 0 || budget >= ssMinFrame) {
		c.fail("sendstream/size", fmt.Sprintf("frame length %d exceeds budget %d (offset %d len %d)", l, budget, fr.off, len(fr.data)))
	}
	if !fr.h.DataLenPresent() {
		c.fail("sendstream/datalen", fmt.Sprintf("popped frame [%d,%d) has DataLenPresent=false: the framer only clears the flag on the last frame of a packet, a frame without length in the middle of a packet swallows what follows", fr.off, end))
	}
	if len(fr.data) == 0 && !fr.fin {
		c.fail("sendstream/data", "empty STREAM frame without FIN")
	}
	if end > int64(len(c.written)) || !bytes.Equal(fr.data, c.written[fr.off:end]) {
		c.fail("sendstream/data", fmt.Sprintf("frame (offset %d len %d) differs from the written bytes (total written %d)", fr.off, len(fr.data), len(c.written)))
	}
	if c.reset {
		if c.relAtReset == 0 {
			c.fail("sendstream/after-reset", fmt.Sprintf("STREAM frame (offset %d len %d) emitted after a reset without reliable size", fr.off, len(fr.data)))
		} else if end > c.relAtReset {
			c.fail("sendstream/after-reset", fmt.Sprintf("STREAM frame (offset %d len %d) beyond the reliable size %d after the reset", fr.off, len(fr.data), c.relAtReset))
		}
	}
	isNew := fr.off >= c.nextNew
	if isNew {
		if fr.off != c.nextNew {
			c.fail("sendstream/contig", fmt.Sprintf("new data at offset %d, expected %d", fr.off, c.nextNew))
		}
		// a pure FIN at the highest offset may also be the retransmission of a lost FIN
		if len(fr.data) == 0 && c.finEmitted {
			if !c.lostFin {
				c.fail("sendstream/retx", "FIN re-emitted although it was not lost")
			}
			c.nRetx++
		}
		c.newBytes += int64(len(fr.data))
		c.nextNew = end
		if c.newBytes > c.maxSwin || c.newBytes > c.maxCwin {
			c.fail("sendstream/window", fmt.Sprintf("%d new bytes sent, stream window %d, connection window %d", c.newBytes, c.maxSwin, c.maxCwin))
		}
	} else {
		c.nRetx++
		if end > c.nextNew {
			c.fail("sendstream/contig", fmt.Sprintf("frame [%d,%d) straddles the highest offset %d", fr.off, end, c.nextNew))
		}
		if !c.lostPending.covers(fr.off, end) {
			c.fail("sendstream/retx", fmt.Sprintf("frame [%d,%d) re-sends bytes that are not pending retransmission", fr.off, end))
		}
		c.lostPending = c.lostPending.sub(fr.off, end)
	}
	if fr.fin {
		switch {
		case !c.closed:
			c.fail("sendstream/fin", fmt.Sprintf("FIN at %d before Close", end))
		case c.reset && !c.closedFirst:
			// Close after CancelWrite is documented as invalid: the position of such a FIN is not judged
		case end != int64(len(c.written)) && c.reset && c.relAtReset > 0:
			c.fail("sendstream/fin-truncated-reliable-reset", fmt.Sprintf("FIN on a frame ending at %d, but %d bytes were written (stream reset with reliable size %d: the frame was truncated and kept its FIN)", end, len(c.written), c.relAtReset))
		case end != int64(len(c.written)):
			c.fail("sendstream/fin", fmt.Sprintf("FIN at %d, but %d bytes were written", end, len(c.written)))
		}
		c.finEmitted = true
		c.lostFin = false
	}
}

func (c *ssCase) snapTerm() string {
	sn := c.v.Snapshot()
	var q []string
	for _, f := range sn.Retrans {
		q = append(q, u.Pair(u.Z(f[0]), u.Z(f[1]), u.B(f[2] == 1)))
	}
	return u.App("mkSnap", u.Z(sn.WriteOffset), u.Z(sn.NumOutstanding), u.Z(sn.ReliableSize), u.List(q),
		u.B(sn.FinishedWriting), u.B(sn.FinSent), u.B(sn.Completed), u.B(sn.Reset), u.B(sn.Shutdown),
		u.B(sn.CancellationFlagged), u.Z(sn.NextFrameLen), u.Z(sn.PendingLen), u.B(sn.QueuedReset))
}

// ---- ops ----

func (c *ssCase) opWrite(n int) {
	if c.panicked { // the code panics while holding the stream mutex
		return
	}
	seed := int64(c.r.Intn(1 << 24))
	p := ssGenData(n, seed)
	sn := c.v.Snapshot()
	accepted := !sn.Reset && !sn.Shutdown && !sn.FinishedWriting && n > 0
	if accepted {
		c.written = append(c.written, p...)
	}
	c.exec(u.App("CWrite", u.Z(int64(n)), u.Z(seed)), fmt.Sprintf("Write(%d)", n), func(o *ssOut) {
		c.writing = true
		c.wlen = n
		c.wdone = make(chan [3]int64, 1)
		done := c.wdone
		go func() {
			defer func() {
				if r := recover(); r != nil {
					done <- [3]int64{-1, 99, 0}
				}
			}()
			k, err := c.v.Write(p)
			cls, code := quic.VerifSSErrClass(err)
			done <- [3]int64{int64(k), int64(cls), code}
		}()
	})
}

func (c *ssCase) opPop(budget int64) *ssOut { return c.opPopF(budget, true) }

func (c *ssCase) opPopF(budget int64, flip bool) *ssOut {
	return c.exec(u.App("CPop", u.Z(budget)), fmt.Sprintf("Pop(%d)", budget), func(o *ssOut) {
		fr, blocked, at, more := c.v.Pop(budget)
		o.blocked, o.blkAt, o.more = blocked, at, more
		if fr != nil {
			rec := &ssFrameRec{h: fr, off: fr.Offset(), data: fr.Data(), fin: fr.Fin(), budget: budget}
			o.frame = rec
			c.onFrame(rec, budget)
			c.outst = append(c.outst, rec)
			// the framer clears DataLenPresent on the last STREAM frame of a packet
			if flip && c.r.Chance(1, 3) {
				fr.SetDataLenPresent(false)
			}
		}
	})
}

func (c *ssCase) opAcked(i int) {
	fr := c.outst[i]
	c.exec(u.App("CAcked", u.Z(int64(i))), fmt.Sprintf("Acked(#%d:[%d,%d)%s)", i, fr.off, fr.off+int64(len(fr.data)), finStr(fr.fin)), func(o *ssOut) {
		c.outst = append(c.outst[:i:i], c.outst[i+1:]...)
		c.ackedSet = c.ackedSet.add(fr.off, fr.off+int64(len(fr.data)))
		if fr.fin {
			c.finAcked = true
		}
		fr.h.Acked()
	})
}

func finStr(b bool) string {
	if b {
		return "+FIN"
	}
	return ""
}

func (c *ssCase) opLost(i int) {
	fr := c.outst[i]
	c.exec(u.App("CLost", u.Z(int64(i))), fmt.Sprintf("Lost(#%d:[%d,%d)%s)", i, fr.off, fr.off+int64(len(fr.data)), finStr(fr.fin)), func(o *ssOut) {
		c.outst = append(c.outst[:i:i], c.outst[i+1:]...)
		lo, hi := fr.off, fr.off+int64(len(fr.data))
		if c.reset {
			if c.relAtReset == 0 {
				hi = lo
			} else if hi > c.relAtReset {
				hi = c.relAtReset
			}
		}
		c.lostPending = c.lostPending.add(lo, hi)
		if fr.fin && !c.reset {
			c.lostFin = true
		}
		fr.h.Lost()
	})
}

func (c *ssCase) opClose() {
	c.exec("CClose", "Close", func(o *ssOut) {
		sn := c.v.Snapshot()
		err := c.v.Close()
		if !sn.Shutdown {
			if !c.closed && !c.reset {
				c.closedFirst = true
			}
			c.closed = true
		}
		if err != nil {
			o.ret = 1
		}
	})
}

func (c *ssCase) markReset() {
	if c.reset {
		return
	}
	c.reset = true
}

func (c *ssCase) opCancel(code int64) {
	c.exec(u.App("CCancel", u.Z(code)), fmt.Sprintf("CancelWrite(%d)", code), func(o *ssOut) {
		sn := c.v.Snapshot()
		if !sn.Shutdown && !sn.Reset {
			c.reset = true
			c.relAtReset = 0
			if c.everEnabled {
				c.relAtReset = sn.ReliableSize
			}
			c.truncLost()
		}
		c.v.CancelWrite(code)
	})
}

func (c *ssCase) truncLost() {
	if c.relAtReset == 0 {
		c.lostPending = nil
	} else {
		c.lostPending = c.lostPending.sub(c.relAtReset, 1<<62)
	}
	c.lostFin = false
}

func (c *ssCase) opStop(code int64) {
	c.exec(u.App("CStop", u.Z(code)), fmt.Sprintf("StopSending(%d)", code), func(o *ssOut) {
		sn := c.v.Snapshot()
		if !sn.Shutdown {
			c.reset = true
			c.relAtReset = 0
			c.truncLost()
		}
		c.v.StopSending(code)
	})
}

func (c *ssCase) opWin(limit int64) {
	c.exec(u.App("CWin", u.Z(limit)), fmt.Sprintf("MaxStreamData(%d)", limit), func(o *ssOut) {
		if limit > c.maxSwin {
			c.maxSwin = limit
		}
		c.v.UpdateSendWindow(limit)
	})
}

func (c *ssCase) opConnWin(limit int64) {
	c.exec(u.App("CConnWin", u.Z(limit)), fmt.Sprintf("MaxData(%d)", limit), func(o *ssOut) {
		if limit > c.maxCwin {
			c.maxCwin = limit
		}
		c.v.UpdateConnSendWindow(limit)
	})
}

func (c *ssCase) opCtrl() {
	c.exec("CCtrl", "GetControlFrame", func(o *ssOut) {
		h, ok, _ := c.v.GetControlFrame()
		if ok {
			a, b, d := h.Fields()
			o.ctrl = &[3]int64{a, b, d}
			c.outR = append(c.outR, h)
		}
	})
}

func (c *ssCase) opRAcked(i int) {
	h := c.outR[i]
	c.exec(u.App("CRAcked", u.Z(int64(i))), fmt.Sprintf("ResetAcked(#%d)", i), func(o *ssOut) {
		c.outR = append(c.outR[:i:i], c.outR[i+1:]...)
		h.Acked()
	})
}

func (c *ssCase) opRLost(i int) {
	h := c.outR[i]
	c.exec(u.App("CRLost", u.Z(int64(i))), fmt.Sprintf("ResetLost(#%d)", i), func(o *ssOut) {
		c.outR = append(c.outR[:i:i], c.outR[i+1:]...)
		h.Lost()
	})
}

func (c *ssCase) opRel() {
	c.exec("CRel", "SetReliableBoundary", func(o *ssOut) { c.v.SetReliableBoundary() })
}

func (c *ssCase) opEnable() {
	c.exec("CEnable", "EnableResetStreamAt", func(o *ssOut) {
		c.everEnabled = true
		c.v.EnableResetStreamAt()
	})
}

func (c *ssCase) opShutdown() {
	c.exec("CShutdown", "CloseForShutdown", func(o *ssOut) {
		sn := c.v.Snapshot()
		if !sn.FinishedWriting {
			c.shutdown = true
		}
		c.v.Shutdown()
	})
}

func (c *ssCase) writeSize() int {
	switch c.r.Intn(10) {
	case 0:
		return c.r.Range(1, 8)
	case 1, 2:
		return c.r.Range(9, 300)
	case 3:
		return c.r.Range(1440, 1464)
	case 4:
		return int(c.r.Pick(1451, 1452, 1453))
	case 5, 6:
		return c.r.Range(300, 1452)
	case 7:
		return c.r.Range(1453, 3000)
	case 8:
		return c.r.Range(2890, 2920)
	default:
		return c.r.Range(3000, 6000)
	}
}

func (c *ssCase) budget() int64 {
	switch c.r.Intn(10) {
	case 0:
		return int64(c.r.Range(1, 6))
	case 1:
		return int64(c.r.Range(7, 40))
	case 2:
		return c.r.Pick(64, 65, 66, 67, 68, 69, 70, 127, 128, 129)
	case 3, 4:
		return int64(c.r.Range(41, 400))
	case 5, 6:
		return int64(c.r.Range(400, 1452))
	default:
		return c.r.Pick(1200, 1252, 1350, 1452)
	}
}

func (c *ssCase) run(drain bool, flavour int) {
	r := c.r
	nops := r.Range(4, 34)
	cancelBias := 0
	if flavour >= 1 { // stress the reliable-reset paths
		cancelBias = 6
	}
	for k := 0; k < nops && !c.panicked; k++ {
		sn := c.v.Snapshot()
		x := r.Intn(100)
		switch {
		case x < 22:
			if !c.writing && (r.Chance(1, 12) || (!sn.FinishedWriting && !sn.Reset && !sn.Shutdown)) {
				if r.Chance(1, 40) {
					c.opWrite(0)
				} else {
					c.opWrite(c.writeSize())
				}
			} else {
				c.opPop(c.budget())
			}
		case x < 55:
			c.opPop(c.budget())
		case x < 65:
			if len(c.outst) > 0 {
				c.opAcked(r.Intn(len(c.outst)))
			} else {
				c.opPop(c.budget())
			}
		case x < 77:
			if len(c.outst) > 0 {
				c.opLost(r.Intn(len(c.outst)))
			} else {
				c.opPop(c.budget())
			}
		case x < 83:
			if r.Bool() {
				c.opWin(int64(len(c.written)) + int64(r.Range(-200, 3000)))
			} else {
				c.opWin(c.maxSwin + int64(r.Range(0, 2000)))
			}
		case x < 85:
			c.opConnWin(c.maxCwin + int64(r.Range(0, 4000)))
		case x < 89:
			// Close while a Write is parked is documented misuse, but the code defines it (FIN follows the data): 1 in 8
			if (!c.writing || r.Chance(1, 8)) && (!sn.FinishedWriting || r.Chance(1, 6)) {
				c.opClose()
			} else {
				c.opPop(c.budget())
			}
		case x < 91+cancelBias:
			if flavour == 2 && !sn.FinishedWriting {
				// flavour 2: Close() first, CancelWrite() afterwards (valid order: aborts the delivery of what is outstanding)
				if !c.writing {
					c.opClose()
				} else {
					c.opPop(c.budget())
				}
			} else if r.Chance(2, 3) || flavour >= 1 {
				c.opCancel(int64(r.Range(0, 500)))
			} else {
				c.opStop(int64(r.Range(0, 500)))
			}
		case x < 94+cancelBias:
			if len(c.outR) > 0 && r.Bool() {
				if r.Chance(2, 3) {
					c.opRAcked(r.Intn(len(c.outR)))
				} else {
					c.opRLost(r.Intn(len(c.outR)))
				}
			} else {
				c.opCtrl()
			}
		case x < 98+cancelBias:
			if !sn.Reset {
				c.opRel()
			} else {
				c.opPop(c.budget())
			}
		case x < 99+cancelBias:
			if !sn.Reset && r.Chance(1, 2) {
				c.opEnable()
			} else {
				c.opPop(c.budget())
			}
		default:
			if r.Chance(1, 4) {
				c.opShutdown()
			} else {
				c.opPop(c.budget())
			}
		}
	}
	if drain && !c.panicked {
		c.drain()
	}
}

// drain: open the windows, close, pop until nothing is left, ack everything; then the
// liveness-flavoured monitors: all lost bytes were re-sent, completion reported exactly once.
func (c *ssCase) drain() {
	c.opWin(c.maxSwin + 1<<20)
	c.opConnWin(c.maxCwin + 1<<21)
	for k := 0; k < 12 && c.writing && !c.panicked; k++ {
		c.opPop(1452)
	}
	if !c.writing {
		c.opClose()
	}
	for k := 0; k < 40 && !c.panicked; k++ {
		o := c.opPopF(1452, false)
		if o.frame == nil {
			break
		}
	}
	if c.panicked {
		return
	}
	sn := c.v.Snapshot()
	if !c.shutdown {
		if len(c.lostPending) > 0 || (c.lostFin && !c.reset) {
			c.fail("sendstream/lost-not-resent", fmt.Sprintf("after draining, lost ranges %v (lost FIN %v) were never re-emitted", c.lostPending, c.lostFin))
		}
		if !c.reset && c.closed && !c.writing {
			if sn.WriteOffset != int64(len(c.written)) {
				c.fail("sendstream/lost-not-resent", fmt.Sprintf("after draining, writeOffset %d but %d bytes were written", sn.WriteOffset, len(c.written)))
			}
			if !c.finEmitted {
				c.fail("sendstream/fin", "stream closed and drained but no FIN was emitted")
			}
		}
	}
	for len(c.outst) > 0 && !c.panicked {
		c.opAcked(0)
	}
	for k := 0; k < 3 && !c.panicked; k++ {
		c.opCtrl()
		for len(c.outR) > 0 && !c.panicked {
			c.opRAcked(0)
		}
	}
	if c.panicked || c.shutdown {
		return
	}
	// everything the peer could acknowledge is acknowledged: the stream must have completed
	if !c.writing && c.completions != 1 {
		sn := c.v.Snapshot()
		switch {
		case sn.Reset && !sn.CancellationFlagged && !sn.FinishedWriting:
			// a reset the application never observed (STOP_SENDING without Write/Close/CancelWrite) keeps the stream alive by design
		case sn.Reset && sn.NextFrameLen > 0:
			c.fail(ssKeyBuffered, fmt.Sprintf("stream reset, everything acked, application closed it, but it never completes: a blocked Write buffered %d bytes into nextFrame AFTER the reset (and returned nil); isNewlyCompleted() stays false forever", sn.NextFrameLen))
		default:
			c.fail("sendstream/complete", fmt.Sprintf("everything acked but completion reported %d times (numOutstanding=%d, finSent=%v, reset=%v)", c.completions, sn.NumOutstanding, sn.FinSent, sn.Reset))
		}
	}
}

func (c *ssCase) cleanup() {
	// release a parked writer so that the bubble can end (not part of the case)
	func() {
		defer func() { recover() }()
		c.v.CancelWrite(0)
		c.v.Shutdown()
	}()
	synctest.Wait()
}

func runSSCase(w *bufio.Writer, seed uint64, idx int, r *u.Rng, script *ssScript) (nt bool, st [4]int) {
	c := &ssCase{w: w, r: r, idx: idx, seed: seed, failed: map[string]bool{}}
	c.sid = r.Pick(0, 1, 2, 3, 4, 62, 63, 64, 65, 400, 16383, 16384, 16385, 1073741823, 1073741824)
	c.rsa = r.Chance(1, 2)
	c.swin = r.Pick(0, 0, 1, 100, 1000, 1452, 3000, 16384, 65536, 65536, 1<<20)
	c.cwin = r.Pick(0, 500, 20000, 65536, 1<<20, 1<<20, 1<<20)
	flavour := 0
	if r.Chance(1, 4) {
		flavour = 1 + r.Intn(2)
		c.rsa = true
	}
	drain := r.Chance(3, 4)
	if script != nil {
		c.sid, c.rsa, c.swin, c.cwin = script.sid, script.rsa, script.swin, script.cwin
	}
	var final string
	err := inBubble(func() {
		c.v = quic.VerifNewSendStream(c.sid, c.rsa, c.swin, c.cwin)
		c.everEnabled = c.rsa
		c.maxSwin, c.maxCwin = c.swin, c.cwin
		if script != nil {
			script.f(c)
		} else {
			c.run(drain, flavour)
		}
		if c.panicked {
			// the code panics while holding the stream mutex: the stream must not be touched again
			return
		}
		final = c.snapTerm()
		c.cleanup()
	})
	if c.panicked {
		final = "(mkSnap 0 0 0 [] false false false false false false 0 0 false)"
	} else if err != nil {
		c.fail("sendstream/panic", "bubble: "+err.Error())
		return false, st
	}
	fmt.Fprintf(w, "CASE %d %s\n", ssB2i(c.nFrames > 0), u.App("SSCase", u.Z(c.sid), u.B(c.rsa), u.Z(c.swin), u.Z(c.cwin),
		u.List(c.ops), final, u.B(c.panicked)))
	if idx < 2 {
		fmt.Fprintf(w, "SAMPLE\tsid=%d rsa=%v swin=%d cwin=%d ops=[%s]\n", c.sid, c.rsa, c.swin, c.cwin, strings.Join(c.desc, " "))
	}
	return c.nFrames > 0, [4]int{c.nFrames, c.nRetx, ssB2i(c.reset), ssB2i(c.completions == 1)}
}

func ssB2i(b bool) int {
	if b {
		return 1
	}
	return 0
}

// ssMix decorrelates seeds: verifutil.NewRng(seed+1) is NewRng(seed) shifted by one draw.
func ssMix(z uint64) uint64 {
	z = (z ^ (z >> 30)) * 0xBF58476D1CE4E5B9
	z = (z ^ (z >> 27)) * 0x94D049BB133111EB
	return z ^ (z >> 31) ^ 0xD1B54A32D192ED03
}

func runSendStream(w *bufio.Writer, seed uint64, n int, _ []string) {
	r := u.NewRng(ssMix(seed))
	var frames, retx, resets, completed, nt int
	// scripted witnesses first (Coq-side *_refuted statements replayed on the implementation)
	for i := range ssScripts {
		runSSCase(w, seed, -1-i, r.Fork(), &ssScripts[i])
	}
	for i := 0; i < n; i++ {
		ok, st := runSSCase(w, seed, i, r.Fork(), nil)
		if ok {
			nt++
		}
		frames += st[0]
		retx += st[1]
		resets += st[2]
		completed += st[3]
	}
	fmt.Fprintf(w, "DIST\tcases\t%d\nDIST\tcases_with_frames\t%d\nDIST\tframes\t%d\nDIST\tretransmissions\t%d\nDIST\tcases_reset\t%d\nDIST\tcases_completed\t%d\n",
		n, nt, frames, retx, resets, completed)
}

// ssScripts: fixed histories. The first is the witness of C01_fin_after_reliable_reset_refuted.
type ssScript struct {
	sid        int64
	rsa        bool
	swin, cwin int64
	f          func(c *ssCase)
}

const (
	ssKeyFinTrunc = "sendstream/fin-truncated-reliable-reset"
	ssKeyRelPanic = "sendstream/panic/reliable-boundary-after-cancel"
)

type ssPF = struct {
	Off  int64
	Data []byte
	Fin  bool
}

// ssScripts: fixed histories, run before the generated ones in every check.
//
//	0: witness of C01_fin_at_final_size_refuted (Close, then CancelWrite with a reliable size, then the FIN frame is lost)
//	1: witness of C01_completes_after_reset_refuted (STOP_SENDING while a Write is blocked behind a buffered frame)
//	2: SetReliableBoundary after CancelWrite, then an ACK: panic "numOutStandingFrames negative"
//	3: (observation) enableResetStreamAt on an already reset stream re-opens the stream with misplaced bytes
var ssScripts = []ssScript{
	{sid: 0, rsa: true, swin: 1 << 20, cwin: 1 << 20, f: func(c *ssCase) {
		c.opWrite(50)
		c.opRel()
		c.opWrite(50)
		c.opClose()
		first := c.opPop(1452)
		c.opCancel(7)
		c.opCtrl()
		c.opLost(0)
		o := c.opPopF(1452, false)
		if o.frame != nil && first.frame != nil && c.outR != nil && len(c.outR) == 1 {
			a, b, d := c.outR[0].Fields()
			re := quic.VerifPeerReaction(c.sid, []ssPF{{o.frame.off, o.frame.data, o.frame.fin}}, &[3]int64{a, b, d}, 1)
			if re != "" {
				c.fail(ssKeyFinTrunc+"/peer-final-size-error", fmt.Sprintf("a real ReceiveStream fed the retransmitted frame [%d,%d)+FIN=%v and then RESET_STREAM_AT(final=%d, reliable=%d) answers: %s", o.frame.off, o.frame.off+int64(len(o.frame.data)), o.frame.fin, a, d, re))
			}
		}
		c.drain()
	}},
	{sid: 0, rsa: true, swin: 1 << 20, cwin: 1 << 20, f: func(c *ssCase) { // FIN frame already queued for retransmission when CancelWrite truncates the queue
		c.opWrite(50)
		c.opRel()
		c.opWrite(50)
		c.opClose()
		c.opPop(1452)
		c.opLost(0)
		c.opCancel(7)
		c.opPopF(1452, false)
		c.drain()
	}},
	{sid: 0, rsa: true, swin: 1 << 20, cwin: 1 << 20, f: func(c *ssCase) { // data beyond the reliable size still buffered when Close(); CancelWrite() happen
		c.opWrite(50)
		c.opRel()
		c.opWrite(50)
		c.opClose()
		c.opCancel(7)
		c.opPopF(1452, false)
		c.drain()
	}},
	{sid: 4, rsa: false, swin: 600, cwin: 1 << 20, f: func(c *ssCase) {
		c.opWrite(1000)
		c.opPop(1452) // 600 bytes leave, 400 stay buffered: blocked by flow control
		c.opWrite(1200)
		c.opStop(5)
		c.drain()
	}},
	{sid: 0, rsa: true, swin: 1 << 20, cwin: 1 << 20, f: func(c *ssCase) {
		c.panicKey = ssKeyRelPanic
		c.opWrite(100)
		c.opPop(1452)
		c.opCancel(1)
		c.opRel()
		c.opAcked(0)
	}},
	{sid: 0, rsa: false, swin: 1 << 20, cwin: 1 << 20, f: func(c *ssCase) {
		c.infoOnly = true
		c.opWrite(100)
		c.opRel()
		c.opWrite(1400)
		c.opCancel(3)
		c.opEnable()
		c.opPop(1452)
	}},
}
