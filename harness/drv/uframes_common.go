//go:build verif

package main

// Shared pieces of the C09 harness units (uframes, uflight, scrambler):
//   - scripted crypto/rand.Reader and seeded math/rand with a log of what was consumed
//   - an INDEPENDENT minimal QUIC frame reader (PADDING 0x00, PING 0x01, CRYPTO 0x06 only,
//     own varint decoder) and the reassembly/coverage monitors built on it
//   - printers for the Coq case terms

import (
	"bufio"
	"crypto/rand"
	"errors"
	"fmt"
	"io"
	mrand "math/rand"
	"os"
	"strings"

	quic "github.com/refraction-networking/uquic"
	u "github.com/refraction-networking/uquic/internal/verifutil"
)

// ---------- scripted randomness ----------

var errScriptEOF = errors.New("verif: scripted rand.Reader exhausted")

// scriptReader replaces crypto/rand.Reader: bytes come from the case's Rng (biased to
// 0x00/0xff so that the rejection loop and range ends of rand.Int are exercised), every
// byte handed out is logged, and after limit bytes it fails (the builders must then
// return that error).
type scriptReader struct {
	r     *u.Rng
	mode  int // 0 mixed, 1 zeros, 2 ones, 3 uniform
	log   []byte
	limit int
}

func (s *scriptReader) Read(p []byte) (int, error) {
	n := 0
	for i := range p {
		if len(s.log) >= s.limit {
			return n, errScriptEOF
		}
		var b byte
		switch s.mode {
		case 1:
			b = 0
		case 2:
			b = 0xff
		case 3:
			b = byte(s.r.U64())
		default:
			switch s.r.Intn(8) {
			case 0:
				b = 0
			case 1:
				b = 0xff
			default:
				b = byte(s.r.U64())
			}
		}
		p[i] = b
		s.log = append(s.log, b)
		n++
	}
	return n, nil
}

var realRandReader = rand.Reader

// withScript runs f with crypto/rand.Reader scripted and math/rand seeded with mseed;
// returns the bytes consumed. Panics in f are recovered and reported by the caller via the
// returned flag.
func withScript(r *u.Rng, mseed int64, f func()) (consumed []byte, panicked any) {
	mode := 0
	limit := 1 << 14
	switch r.Intn(40) {
	case 0:
		mode, limit = 1, 1<<14
	case 1:
		mode, limit = 2, 48
	case 2:
		mode = 3
	case 3:
		limit = r.Intn(6)
	}
	sr := &scriptReader{r: r, mode: mode, limit: limit}
	rand.Reader = sr
	mrand.Seed(mseed)
	defer func() {
		rand.Reader = realRandReader
		if e := recover(); e != nil {
			panicked = e
			consumed = sr.log
		}
	}()
	f()
	return sr.log, nil
}

// u32Stream: the first k values math/rand's global source yields after Seed(mseed) — what
// mrand.Shuffle consumes (Shuffle -> int31n -> Uint32).
func u32Stream(mseed int64, k int) []int64 {
	mrand.Seed(mseed)
	out := make([]int64, k)
	for i := range out {
		out[i] = int64(mrand.Uint32())
	}
	return out
}

func seedSetup() {
	// Go 1.24: the top-level math/rand.Seed is a no-op unless randseednop=0.
	g := os.Getenv("GODEBUG")
	if !strings.Contains(g, "randseednop=0") {
		if g != "" {
			g += ","
		}
		os.Setenv("GODEBUG", g+"randseednop=0")
	}
	os.Unsetenv("QUIC_GO_DISABLE_CLIENTHELLO_SCRAMBLING")
}

// seedCheck verifies that seeding really makes math/rand reproducible (otherwise the
// shuffle oracle is meaningless).
func seedCheck(w *bufio.Writer) bool {
	a := u32Stream(12345, 4)
	b := u32Stream(12345, 4)
	for i := range a {
		if a[i] != b[i] {
			fmt.Fprintf(w, "MONFAIL\tuframes/harness-seed\tmath/rand.Seed does not make the global source reproducible\t%v %v\n", a, b)
			return false
		}
	}
	return true
}

// ---------- independent frame reader ----------

type vframe struct {
	typ  byte // 0 padding (one per byte), 1 ping, 6 crypto
	off  uint64
	data []byte
}

func readVarint(b []byte) (v uint64, n int, ok bool) {
	if len(b) == 0 {
		return 0, 0, false
	}
	n = 1 << (b[0] >> 6)
	if len(b) < n {
		return 0, 0, false
	}
	v = uint64(b[0] & 0x3f)
	for i := 1; i < n; i++ {
		v = v<<8 | uint64(b[i])
	}
	return v, n, true
}

// readFrames parses a payload that may only contain PADDING, PING and CRYPTO frames.
func readFrames(b []byte) ([]vframe, error) {
	var out []vframe
	for i := 0; i < len(b); {
		switch b[i] {
		case 0x00:
			out = append(out, vframe{typ: 0})
			i++
		case 0x01:
			out = append(out, vframe{typ: 1})
			i++
		case 0x06:
			off, n1, ok := readVarint(b[i+1:])
			if !ok {
				return nil, fmt.Errorf("truncated CRYPTO offset at %d", i)
			}
			l, n2, ok := readVarint(b[i+1+n1:])
			if !ok {
				return nil, fmt.Errorf("truncated CRYPTO length at %d", i)
			}
			s := i + 1 + n1 + n2
			if l > uint64(len(b)-s) {
				return nil, fmt.Errorf("CRYPTO frame at %d claims %d bytes, %d left", i, l, len(b)-s)
			}
			out = append(out, vframe{typ: 6, off: off, data: b[s : s+int(l)]})
			i = s + int(l)
		default:
			return nil, fmt.Errorf("frame type 0x%02x at %d is not PADDING/PING/CRYPTO", b[i], i)
		}
	}
	return out, nil
}

type frameCounts struct{ ping, crypto, padBytes int }

// checkCover is the core C09 monitor: all payloads parse to the three frame types; each
// CRYPTO range lies inside [base, base+len(data)) and carries the true bytes; together the
// ranges cover the whole of data (exactly once when exact is set). Returns "" when fine.
func checkCover(payloads [][]byte, data []byte, base uint64, exact bool) (string, frameCounts) {
	var fc frameCounts
	cnt := make([]uint16, len(data))
	for pi, p := range payloads {
		fs, err := readFrames(p)
		if err != nil {
			return fmt.Sprintf("parse: datagram %d: %v", pi, err), fc
		}
		for _, f := range fs {
			switch f.typ {
			case 0:
				fc.padBytes++
			case 1:
				fc.ping++
			case 6:
				fc.crypto++
				if f.off < base || f.off-base > uint64(len(data)) || uint64(len(f.data)) > uint64(len(data))-(f.off-base) {
					return fmt.Sprintf("range: datagram %d CRYPTO [%d,+%d) outside [%d,+%d)", pi, f.off, len(f.data), base, len(data)), fc
				}
				s := int(f.off - base)
				for k, b := range f.data {
					if data[s+k] != b {
						return fmt.Sprintf("bytes: datagram %d CRYPTO offset %d byte %d is %02x, ClientHello has %02x", pi, f.off, k, b, data[s+k]), fc
					}
					cnt[s+k]++
				}
			}
		}
	}
	for i, c := range cnt {
		if c == 0 {
			return fmt.Sprintf("cover: byte %d of %d is in no CRYPTO frame", i, len(data)), fc
		}
		if exact && c > 1 {
			return fmt.Sprintf("cover: byte %d of %d is in %d CRYPTO frames", i, len(data), c), fc
		}
	}
	return "", fc
}

// ---------- data ----------

// testData: bytes that are never zero and depend on the position, so a shifted or
// zero-extended range cannot go unnoticed.
func testData(r *u.Rng, n int) []byte {
	b := make([]byte, n)
	k := byte(r.U64())
	for i := range b {
		b[i] = byte(i*7+i/251) ^ k
		if b[i] == 0 {
			b[i] = 0xa5
		}
	}
	return b
}

func pickLen(r *u.Rng, small bool) int {
	switch r.Intn(10) {
	case 0:
		return r.Intn(4) // 0..3
	case 1, 2, 3, 4:
		return r.Range(1, 40)
	case 5, 6:
		if small {
			return r.Range(40, 120)
		}
		return r.Range(40, 300)
	case 7, 8:
		if small {
			return r.Range(40, 300)
		}
		return r.Range(300, 1400)
	default:
		if small {
			return r.Range(300, 450)
		}
		return r.Range(1400, 4000)
	}
}

func pickBase(r *u.Rng, n int) uint64 {
	max := uint64(1<<62) - 1 - uint64(n) // base + n must stay encodable
	switch r.Intn(8) {
	case 0, 1, 2:
		return 0
	case 3:
		return uint64(r.Range(1, 2000))
	case 4:
		return uint64(r.Pick(63, 64, 16383, 16384, 1073741823, 1073741824)) - uint64(r.Intn(min(n+1, 40)))
	case 5:
		return max - uint64(r.Intn(3))
	case 6:
		return r.U64() % (max + 1)
	default:
		return uint64(r.Range(1000, 5000))
	}
}

// ---------- Coq printers ----------

func rfTerm(f quic.QUICRandomFrames) string {
	return u.ZList([]int64{int64(f.MinPING), int64(f.MaxPING), int64(f.MinCRYPTO), int64(f.MaxCRYPTO), int64(f.MinPADDING), int64(f.MaxPADDING), int64(f.Length)})
}

func framesTerm(qfs quic.QUICFrames) string {
	xs := make([]string, len(qfs))
	for i, f := range qfs {
		switch t := f.(type) {
		case quic.QUICFrameCrypto:
			xs[i] = u.App("FCrypto", u.Z(int64(t.Offset)), u.Z(int64(t.Length)))
		case quic.QUICFramePadding:
			xs[i] = u.App("FPad", u.Z(int64(t.Length)))
		case quic.QUICFramePing:
			xs[i] = "FPing"
		}
	}
	return u.List(xs)
}

// errClass maps a builder error to the enum the model uses.
func errClass(err error) int64 {
	if errors.Is(err, errScriptEOF) || errors.Is(err, io.ErrUnexpectedEOF) {
		return 6
	}
	m := err.Error()
	switch {
	case strings.Contains(m, "MinPING must be less"):
		return 1
	case strings.Contains(m, "MinCRYPTO must be at least 1"):
		return 2
	case strings.Contains(m, "MinCRYPTO must be less"):
		return 3
	case strings.Contains(m, "MinPADDING must be at least 1"):
		return 4
	case strings.Contains(m, "MinPADDING must be less"):
		return 5
	case strings.Contains(m, "PerDatagram must not be empty"):
		return 7
	case strings.Contains(m, "CryptoRanges must not be empty"):
		return 8
	case strings.Contains(m, "CRYPTO range offset"):
		return 9
	case strings.Contains(m, "CRYPTO range ["):
		return 10
	case strings.Contains(m, "CryptoRanges cover no bytes"):
		return 11
	case strings.Contains(m, "Datagrams must not be empty"):
		return 12
	case strings.Contains(m, "not Read()-able"):
		return 13
	}
	return 99
}

// resTerm: ROk payload | RErr class | RPanic
func resTerm(payload []byte, err error, panicked any) string {
	switch {
	case panicked != nil:
		return "RPanic"
	case err != nil:
		return u.App("RErr", u.Z(errClass(err)))
	default:
		return u.App("ROk", u.Hex(payload))
	}
}

// monfail prints a MONFAIL line; after 3 reports of the same key in one run the rest is
// only counted (the inputs are long) and summarised by flushMonfail.
var monfailCount = map[string]int{}

func flushMonfail(w *bufio.Writer) {
	for k, c := range monfailCount {
		if c > 3 {
			fmt.Fprintf(w, "INFO\tmonitor %s failed %d times in this run (first 3 reported)\n", k, c)
		}
	}
}

func monfail(w *bufio.Writer, key, desc, detail string) {
	monfailCount[key]++
	if monfailCount[key] > 3 {
		return
	}
	detail = strings.ReplaceAll(strings.ReplaceAll(detail, "\t", " "), "\n", " ")
	desc = strings.ReplaceAll(strings.ReplaceAll(desc, "\t", " "), "\n", " ")
	fmt.Fprintf(w, "MONFAIL\t%s\t%s\t%s\n", key, desc, detail)
}
