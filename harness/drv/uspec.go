//go:build verif

// math/rand.Seed must work: the shuffle's draws are recorded by re-running rand.Shuffle
// under the same seed (DESIGN 3.4). go.mod says go 1.24, where Seed is a no-op by default.
//go:debug randseednop=0

package main

// uspec: C11 unit level. SuppressQUICTransportParameters, ShuffleQUICTransportParameters,
// QUICSpec.TransportParameterIDs, (uTLS) TransportParameters.Marshal and
// wire.TransportParameters.PopulateFromUQUIC are called directly on generated parameter
// lists: typed uTLS parameters with boundary values, fake/raw parameters (random ids,
// GREASE-shaped ids, ids of typed parameters), GREASE parameters with random or drawn ids
// and random lengths, duplicates; all kinds of suppression lists including 27.
//
// Monitors (independent of the model; they restate the property in Go):
//   uspec/suppress          result = the sub-sequence (same objects) whose id is not listed
//                           and, if 27 is listed, not GREASE; idempotent; returns its argument
//   uspec/shuffle-perm      same objects, each once
//   uspec/ids               TransportParameterIDs = sort(canon(ids kept)); stable when repeated
//   uspec/wire-mismatch     an independent reader of the marshalled extension returns exactly
//                           the list's (id, value) pairs in order
//   uspec/ids-wire          TransportParameterIDs = sort(canon(ids read from the wire bytes))
//   uspec/populate-view     typed read-back = last typed occurrence of each parameter
//   uspec/populate-override ClientOverride is byte-identical to what uTLS serialises
//   uspec/raw-verbatim      every raw/fake parameter (also with the id of a typed one, 0x0f in
//                           particular) is serialised with exactly its own bytes
//   uspec/dial-wire         suppress -> (shuffle) -> populate: the extension bytes parse to
//                           the kept parameters, in order unless shuffled
//   uspec/perm-coverage, uspec/perm-chi2   distribution support (small lists)
//   uspec/panic             a panic other than the two documented type-assertion ones

import (
	"bufio"
	"bytes"
	"fmt"
	"math"
	mrand "math/rand"
	"os"
	"sort"
	"strings"
	"time"

	quic "github.com/refraction-networking/uquic"
	"github.com/refraction-networking/uquic/internal/protocol"
	u "github.com/refraction-networking/uquic/internal/verifutil"
	"github.com/refraction-networking/uquic/internal/wire"
	tls "github.com/refraction-networking/utls"
)

func init() {
	units["uspec"] = runUSpec
	genSources = append(genSources, wire.VerifUSpecConsts, protocol.VerifUSpecConsts, func() [][2]any {
		out := [][2]any{{"uspec_QTPGrease", uint64(quic.QTPGrease)}}
		// the PING-count range (MinPING, MaxPING) of every randomised frame builder of every
		// built-in parrot, one entry per builder (C11_parrots_ping_stable is stated over this table)
		var rs, bs []string
		add := func(rf quic.QUICRandomFrames) {
			rs = append(rs, u.Pair(u.Z(int64(rf.MinPING)), u.Z(int64(rf.MaxPING))))
			// all seven fields, in the order of UFrames.Model.mkRF (C11_fp_frame_types_from_builder)
			bs = append(bs, u.Pair(u.Z(int64(rf.MinPING)), u.Z(int64(rf.MaxPING)), u.Z(int64(rf.MinCRYPTO)), u.Z(int64(rf.MaxCRYPTO)),
				u.Z(int64(rf.MinPADDING)), u.Z(int64(rf.MaxPADDING)), u.Z(int64(rf.Length))))
		}
		for _, nm := range parrotNames {
			sp, err := quic.QUICID2Spec(parrotIDs[nm])
			if err != nil {
				panic(err)
			}
			switch fb := sp.InitialPacketSpec.FrameBuilder.(type) {
			case *quic.QUICRandomFrames:
				add(*fb)
			case *quic.QUICRandomFlightFrames:
				for _, d := range fb.PerDatagram {
					add(d.Frames)
				}
			case quic.QUICFrames, *quic.QUICFlightFrames, nil:
				// fixed frame lists: nothing is drawn
			default:
				panic(fmt.Sprintf("%s: frame builder %T is not known to the C11 translator", nm, fb))
			}
		}
		out = append(out, [2]any{"uspec_parrot_ping_ranges", "list (Z * Z) := " + u.List(rs)})
		out = append(out, [2]any{"uspec_parrot_builders", "list (Z * Z * Z * Z * Z * Z * Z) := " + u.List(bs)})
		// the transport parameter list of every built-in QUICID, projected to what the reference
		// fingerprinter's transport-parameter hash can see (id with GREASE folded to 27; the value
		// only for the eleven ids it hashes) and sorted, so that the table does not depend on
		// the per-spec random draws (GREASE id/value, shuffle, ChromeRandomInitialRTT);
		// C11_builtin_qtp_features is stated over it. Order = parrotNames.
		hashed := map[uint64]bool{1: true, 3: true, 4: true, 5: true, 6: true, 7: true, 8: true, 9: true, 10: true, 11: true, 14: true}
		var tabs []string
		for _, nm := range parrotNames {
			sp, err := quic.QUICID2Spec(parrotIDs[nm])
			if err != nil {
				panic(err)
			}
			type pv struct {
				id  uint64
				val []byte
			}
			var l []pv
			for _, tp := range fpSpecExt(&sp).TransportParameters {
				id := tp.ID()
				if fpIsGrease(id) {
					id = 27
				}
				var v []byte
				if hashed[id] {
					v = tp.Value()
				}
				l = append(l, pv{id, v})
			}
			sort.SliceStable(l, func(i, j int) bool {
				if l[i].id != l[j].id {
					return l[i].id < l[j].id
				}
				return bytes.Compare(l[i].val, l[j].val) < 0
			})
			var es []string
			for _, e := range l {
				es = append(es, u.Pair(u.ZU(e.id), u.Hex(e.val)+"%string"))
			}
			tabs = append(tabs, u.List(es))
		}
		out = append(out, [2]any{"uspec_builtin_tp", "list (list (Z * string)) := " + u.List(tabs)})
		return out
	})
}

// ---- generated parameters ------------------------------------------------------------

type uPar struct {
	tp    tls.TransportParameter
	typed bool // has the dedicated uTLS type of its id (PopulateFromUQUIC's assertions succeed)
}

var uBoundary = []uint64{0, 1, 2, 8, 63, 64, 100, 16383, 16384, 30000, 65536, 6291456, 1<<30 - 1, 1 << 30, 1<<62 - 1}

func uVal(r *u.Rng) uint64 {
	if r.Chance(2, 3) {
		return uBoundary[r.Intn(len(uBoundary))]
	}
	return r.U64() >> uint(2+r.Intn(62))
}

func uGreaseID(r *u.Rng) uint64 {
	switch r.Intn(4) {
	case 0:
		return 27
	case 1:
		return 27 + 31*uint64(r.Range(1, 40))
	default:
		return 27 + 31*(r.U64()%tls.GREASE_MAX_MULTIPLIER)
	}
}

func uGenParam(r *u.Rng) uPar {
	switch k := r.Intn(100); {
	case k < 52: // typed
		v := uVal(r)
		switch r.Intn(17) {
		case 0:
			return uPar{tls.MaxIdleTimeout(v), true}
		case 1:
			return uPar{tls.MaxUDPPayloadSize(v), true}
		case 2:
			return uPar{tls.InitialMaxData(v), true}
		case 3:
			return uPar{tls.InitialMaxStreamDataBidiLocal(v), true}
		case 4:
			return uPar{tls.InitialMaxStreamDataBidiRemote(v), true}
		case 5:
			return uPar{tls.InitialMaxStreamDataUni(v), true}
		case 6:
			return uPar{tls.InitialMaxStreamsBidi(v), true}
		case 7:
			return uPar{tls.InitialMaxStreamsUni(v), true}
		case 8:
			return uPar{tls.MaxAckDelay(v), true}
		case 9:
			return uPar{&tls.DisableActiveMigration{}, true}
		case 10:
			return uPar{tls.ActiveConnectionIDLimit(v), true}
		case 11, 12:
			n := 0
			if r.Chance(1, 2) {
				n = r.Range(1, 20)
			}
			if r.Chance(1, 40) {
				n = r.Range(21, 24) // ParseConnectionID panics
			}
			return uPar{tls.InitialSourceConnectionID(r.Bytes(n)), true}
		case 13:
			return uPar{tls.MaxDatagramFrameSize(v), true}
		case 14:
			vs := []uint32{tls.VERSION_1}
			for i := r.Intn(3); i > 0; i-- {
				vs = append(vs, []uint32{tls.VERSION_1, tls.VERSION_2, 0xff00001d}[r.Intn(3)])
			}
			return uPar{&tls.VersionInformation{ChoosenVersion: tls.VERSION_1, AvailableVersions: vs, LegacyID: r.Bool()}, true}
		case 15:
			return uPar{tls.PaddingTransportParameter(r.Bytes(r.Intn(12))), true}
		default:
			return uPar{&tls.GREASEQUICBit{}, true}
		}
	case k < 80: // fake / raw
		var id uint64
		switch r.Intn(8) {
		case 6: // raw initial_source_connection_id: must go out verbatim, whatever the SCID is
			return uPar{&tls.FakeQUICTransportParameter{Id: 0xf, Val: r.Bytes([]int{0, 8, 24}[r.Intn(3)])}, false}
		case 7: // raw copy of a typed id (an asserted id makes PopulateFromUQUIC panic: modelled)
			ids := []uint64{0x2, 0x3, 0xa, 0xc, 0xd, 0x10, 0x11, 0x15, 0x2ab2, 0xf}
			if r.Chance(1, 5) {
				ids = []uint64{0x1, 0x4, 0x5, 0x6, 0x7, 0x8, 0x9, 0xb, 0xe, 0x20}
			}
			return uPar{&tls.FakeQUICTransportParameter{Id: ids[r.Intn(len(ids))], Val: r.Bytes(r.Intn(9))}, false}
		case 0:
			id = uGreaseID(r) // GREASE-shaped literal id
		case 1:
			id = []uint64{0x3127, 0x3128, 0x4752, 0x2ab2, 0xff73db, 0x11, 0x15, 0x3, 0xa, 0x2, 0xd}[r.Intn(11)]
		case 2:
			id = uint64(r.Range(1, 0x40)) // may carry the id of a typed parameter
		case 3:
			id = 26 + uint64(r.Intn(3)) + 31*uint64(r.Intn(3)) // around the GREASE pattern
		default:
			id = 1 + r.U64()>>uint(2+r.Intn(60))
		}
		if id == 0 {
			id = 1
		}
		return uPar{&tls.FakeQUICTransportParameter{Id: id, Val: r.Bytes(r.Intn(12))}, false}
	default: // GREASE
		g := &tls.GREASETransportParameter{Length: uint16(r.Intn(17))}
		if r.Chance(2, 3) {
			g.IdOverride = uGreaseID(r)
		} // else: drawn by uTLS (crypto/rand) on first ID()
		if r.Chance(1, 4) {
			g.ValueOverride = r.Bytes(r.Range(1, 9))
		}
		return uPar{g, false}
	}
}

func uGenList(r *u.Rng) []uPar {
	n := r.Range(0, 12)
	if r.Chance(1, 10) {
		n = r.Range(12, 18)
	}
	var ps []uPar
	for i := 0; i < n; i++ {
		if len(ps) > 0 && r.Chance(1, 8) { // duplicate: the same object again, or another of the same kind
			ps = append(ps, ps[r.Intn(len(ps))])
			continue
		}
		ps = append(ps, uGenParam(r))
	}
	return ps
}

func uTPs(ps []uPar) tls.TransportParameters {
	out := make(tls.TransportParameters, len(ps))
	for i, p := range ps {
		out[i] = p.tp
	}
	return out
}

func uGenSuppress(r *u.Rng, ps []uPar) []uint64 {
	if r.Chance(1, 8) {
		return nil
	}
	var s []uint64
	for _, p := range ps {
		if r.Chance(1, 4) {
			s = append(s, p.tp.ID())
		}
	}
	if r.Chance(1, 3) {
		s = append(s, 27)
	}
	if r.Chance(1, 4) {
		s = append(s, uGreaseID(r)) // a GREASE id other than 27: matches only itself
	}
	if r.Chance(1, 4) {
		s = append(s, uint64(r.Range(0, 0x50)))
	}
	if r.Chance(1, 4) && len(s) > 1 { // order and repetition must not matter
		s = append(s, s[r.Intn(len(s))])
		i, j := r.Intn(len(s)), r.Intn(len(s))
		s[i], s[j] = s[j], s[i]
	}
	if s == nil && r.Bool() {
		s = []uint64{}
	}
	return s
}

// ---- printing ------------------------------------------------------------------------

func uTyped(ps []uPar, tp tls.TransportParameter) bool {
	for _, p := range ps {
		if uSameObj(p.tp, tp) {
			return p.typed
		}
	}
	return false
}

// (id, "hex value", typed)
func uTerm(ps []uPar, l tls.TransportParameters) string {
	s := make([]string, len(l))
	for i, tp := range l {
		s[i] = u.Pair(u.ZU(tp.ID()), u.Hex(tp.Value()), u.B(uTyped(ps, tp)))
	}
	return u.List(s)
}

func uZUList(xs []uint64) string {
	s := make([]string, len(xs))
	for i, x := range xs {
		s[i] = u.ZU(x)
	}
	return u.List(s)
}

func uSnapshot(l tls.TransportParameters) []fpParam {
	out := make([]fpParam, len(l))
	for i, tp := range l {
		_, ph := tp.(tls.InitialSourceConnectionID)
		_, raw := tp.(*tls.FakeQUICTransportParameter)
		out[i] = fpParam{ID: tp.ID(), Val: append([]byte{}, tp.Value()...), Placeholder: ph, Raw: raw}
	}
	return out
}

// the property's statement of suppression, in Go
func uKeep(id uint64, sup []uint64) bool {
	for _, s := range sup {
		if s == id || (s == 27 && id >= 27 && (id-27)%31 == 0) {
			return false
		}
	}
	return true
}

func uSamePtrs(a, b tls.TransportParameters) bool {
	if len(a) != len(b) {
		return false
	}
	for i := range a {
		if !uSameObj(a[i], b[i]) {
			return false
		}
	}
	return true
}

// identity of parameter objects: pointers compare by address, value types by value
func uSameObj(a, b tls.TransportParameter) (same bool) {
	defer func() {
		if recover() != nil { // uncomparable dynamic types (byte-slice based parameters)
			same = a.ID() == b.ID() && bytes.Equal(a.Value(), b.Value())
		}
	}()
	return a == b
}

type uOut struct {
	w    *bufio.Writer
	seen map[string]int
	dist map[string]int
}

func (o *uOut) fail(key, desc, detail string) {
	o.seen[key]++
	if o.seen[key] <= 3 {
		fmt.Fprintf(o.w, "MONFAIL\t%s\t%s\t%s\n", key, desc, strings.ReplaceAll(detail, "\n", " "))
	}
}

// ---- cases ---------------------------------------------------------------------------

func uSuppressCase(o *uOut, r *u.Rng) {
	ps := uGenList(r)
	sup := uGenSuppress(r, ps)
	in := uTPs(ps)
	inTerm := uTerm(ps, in)
	var want tls.TransportParameters
	for _, tp := range in {
		if uKeep(tp.ID(), sup) {
			want = append(want, tp)
		}
	}
	ext := &tls.QUICTransportParametersExtension{TransportParameters: append(tls.TransportParameters{}, in...)}
	ret := quic.SuppressQUICTransportParameters(ext, sup)
	detail := fmt.Sprintf("params=%s suppress=%v got=%s", inTerm, sup, uTerm(ps, ext.TransportParameters))
	if ret != ext {
		o.fail("uspec/suppress", "SuppressQUICTransportParameters does not return its argument", detail)
	}
	if !uSamePtrs(ext.TransportParameters, want) {
		o.fail("uspec/suppress", "result is not the sub-sequence of parameters whose id is not listed (GREASE for 27)", detail)
	}
	outTerm := uTerm(ps, ext.TransportParameters)
	before := append(tls.TransportParameters{}, ext.TransportParameters...)
	quic.SuppressQUICTransportParameters(ext, sup)
	if !uSamePtrs(ext.TransportParameters, before) {
		o.fail("uspec/suppress", "suppression is not idempotent", detail+" second="+uTerm(ps, ext.TransportParameters))
	}
	nt := 0
	if len(want) > 0 && len(want) < len(in) {
		nt = 1
	}
	o.dist[fmt.Sprintf("suppress dropped=%v kept=%v", len(want) < len(in), len(want) > 0)]++
	fmt.Fprintf(o.w, "CASE %d %s\n", nt, u.App("SupCase", inTerm, uZUList(sup), outTerm))
}

func uShuffleCase(o *uOut, r *u.Rng) {
	ps := uGenList(r)
	in := uTPs(ps)
	inTerm := uTerm(ps, in)
	seed := int64(r.U64() >> 1)
	mrand.Seed(seed)
	var sw []string
	mrand.Shuffle(len(in), func(i, j int) { sw = append(sw, u.Pair(u.Z(int64(i)), u.Z(int64(j)))) })
	ext := &tls.QUICTransportParametersExtension{TransportParameters: append(tls.TransportParameters{}, in...)}
	mrand.Seed(seed)
	ret := quic.ShuffleQUICTransportParameters(ext)
	detail := fmt.Sprintf("params=%s seed=%d got=%s", inTerm, seed, uTerm(ps, ext.TransportParameters))
	if ret != ext {
		o.fail("uspec/shuffle-perm", "ShuffleQUICTransportParameters does not return its argument", detail)
	}
	// same objects, each once
	used := make([]bool, len(in))
	ok := len(in) == len(ext.TransportParameters)
	for _, tp := range ext.TransportParameters {
		found := false
		for j := range in {
			if !used[j] && uSameObj(in[j], tp) {
				used[j], found = true, true
				break
			}
		}
		ok = ok && found
	}
	if !ok {
		o.fail("uspec/shuffle-perm", "the shuffled list is not a permutation of the input", detail)
	}
	nt := 0
	if len(in) >= 2 {
		nt = 1
	}
	o.dist[fmt.Sprintf("shuffle n=%d", len(in))]++
	fmt.Fprintf(o.w, "CASE %d %s\n", nt, u.App("ShufCase", inTerm, u.List(sw), uTerm(ps, ext.TransportParameters)))
}

func uWireOf(ext *tls.QUICTransportParametersExtension) ([]byte, error) {
	b := make([]byte, ext.Len())
	if _, err := ext.Read(b); err != nil && err.Error() != "EOF" {
		return nil, err
	}
	if len(b) < 4 || b[0] != 0 || b[1] != 57 || int(b[2])<<8|int(b[3]) != len(b)-4 {
		return nil, fmt.Errorf("bad extension header %x", b[:4])
	}
	return b[4:], nil
}

func uIdsCase(o *uOut, r *u.Rng) {
	ps := uGenList(r)
	sup := uGenSuppress(r, ps)
	in := uTPs(ps)
	inTerm := uTerm(ps, in)
	ext := &tls.QUICTransportParametersExtension{TransportParameters: append(tls.TransportParameters{}, in...)}
	sp := &quic.QUICSpec{ClientHelloSpec: &tls.ClientHelloSpec{Extensions: []tls.TLSExtension{&tls.SNIExtension{}, ext, &tls.ALPNExtension{AlpnProtocols: []string{"h3"}}}}, SuppressTransportParameters: sup}
	ids := sp.TransportParameterIDs()
	var want []uint64
	for _, tp := range in {
		if id := tp.ID(); uKeep(id, sup) {
			if id >= 27 && (id-27)%31 == 0 {
				id = 27
			}
			want = append(want, id)
		}
	}
	sort.Slice(want, func(i, j int) bool { return want[i] < want[j] })
	detail := fmt.Sprintf("params=%s suppress=%v ids=%v", inTerm, sup, ids)
	if !fpEqU64(ids, want) {
		o.fail("uspec/ids", fmt.Sprintf("TransportParameterIDs() = %v, want sort(canon(kept ids)) = %v", ids, want), detail)
	}
	if again := sp.TransportParameterIDs(); !fpEqU64(ids, again) {
		o.fail("uspec/ids", fmt.Sprintf("a second call returns %v", again), detail)
	}
	afterTerm := uTerm(ps, ext.TransportParameters)
	// the method is a query: the spec's own list stays as the caller wrote it
	// (fixes/C11-transport-parameter-ids-on-a-copy.patch; before it the list was shortened for good)
	if !uSamePtrs(ext.TransportParameters, in) {
		o.fail("uspec/ids-mutates-spec", "QUICSpec.TransportParameterIDs() changed the spec's own parameter list", detail+" now="+afterTerm)
	}
	// what a fingerprinter canonicalising the wire of a dial under this suppression list sees
	wext := &tls.QUICTransportParametersExtension{TransportParameters: append(tls.TransportParameters{}, in...)}
	quic.SuppressQUICTransportParameters(wext, sup)
	if body, err := uWireOf(wext); err != nil {
		o.fail("uspec/wire-mismatch", "extension does not serialise: "+err.Error(), detail)
	} else if wps, err := fpReadParams(body); err != nil {
		o.fail("uspec/wire-mismatch", "serialised extension does not parse: "+err.Error(), detail+fmt.Sprintf(" bytes=%x", body))
	} else if canon := fpCanonIDs(wps); !fpEqU64(canon, ids) {
		o.fail("uspec/ids-wire", fmt.Sprintf("TransportParameterIDs() = %v but the canonicalised wire ids are %v", ids, canon), detail)
	}
	nt := 0
	if len(ids) >= 2 {
		nt = 1
	}
	o.dist[fmt.Sprintf("ids n>=2=%v", len(ids) >= 2)]++
	fmt.Fprintf(o.w, "CASE %d %s\n", nt, u.App("IdsCase", inTerm, uZUList(sup), uZUList(ids), afterTerm))
}

func uWireCase(o *uOut, r *u.Rng) {
	ps := uGenList(r)
	in := uTPs(ps)
	inTerm := uTerm(ps, in)
	snap := uSnapshot(in)
	ext := &tls.QUICTransportParametersExtension{TransportParameters: in}
	body, err := uWireOf(ext)
	detail := fmt.Sprintf("params=%s bytes=%x", inTerm, body)
	if err != nil {
		o.fail("uspec/wire-mismatch", "extension does not serialise: "+err.Error(), detail)
		return
	}
	wps, err := fpReadParams(body)
	if err != nil || !fpSameOrder(snap, wps) {
		o.fail("uspec/wire-mismatch", fmt.Sprintf("the marshalled extension does not read back as the list (err=%v)", err), detail+" read="+fpParamsString(wps))
	}
	if m := in.Marshal(); !bytes.Equal(m, body) {
		o.fail("uspec/wire-mismatch", "extension body differs from TransportParameters.Marshal()", detail+fmt.Sprintf(" marshal=%x", m))
	}
	nt := 0
	if len(in) > 0 {
		nt = 1
	}
	o.dist["wire"]++
	fmt.Fprintf(o.w, "CASE %d %s\n", nt, u.App("WireCase", inTerm, u.Hex(body)))
}

func uViewTerm(tp *wire.TransportParameters) string {
	nums := []int64{int64(tp.MaxIdleTimeout), int64(tp.InitialMaxData), int64(tp.InitialMaxStreamDataBidiLocal), int64(tp.InitialMaxStreamDataBidiRemote),
		int64(tp.InitialMaxStreamDataUni), int64(tp.MaxBidiStreamNum), int64(tp.MaxUniStreamNum), int64(tp.MaxAckDelay)}
	s := make([]string, 0, 12)
	for _, n := range nums {
		s = append(s, u.Z(n))
	}
	return u.App("View", append(s, u.B(tp.DisableActiveMigration), u.ZU(tp.ActiveConnectionIDLimit), "(hx "+u.Hex(tp.InitialSourceConnectionID.Bytes())+")", u.Z(int64(tp.MaxDatagramFrameSize)),
		u.Z(int64(tp.MaxUDPPayloadSize)), u.Z(int64(tp.AckDelayExponent)))...)
}

// uPopulate runs PopulateFromUQUIC, reporting a panic as ok=false.
func uPopulate(tp *wire.TransportParameters, l tls.TransportParameters) (ok bool, msg string) {
	defer func() {
		if p := recover(); p != nil {
			ok, msg = false, fmt.Sprint(p)
		}
	}()
	tp.PopulateFromUQUIC(l)
	return true, ""
}

// uExpectPanic: the one documented reason since /repo 7263726 (integer parameters are read by id
// from their wire value, no type assertion): a typed initial_source_connection_id longer than 20 bytes.
func uExpectPanic(ps []uPar, l tls.TransportParameters) bool {
	for _, tp := range l {
		switch tp.ID() {
		case 0xf:
			if uTyped(ps, tp) && len(tp.Value()) > 20 {
				return true
			}
		}
	}
	return false
}

// uCheckView: the connection's record, restated (semantics of /repo 7263726): what a peer reads
// from the bytes -- for every integer parameter the LAST entry with that id whose value is exactly
// one varint, whatever Go type carries it; the protocol default where the list has none
// (max_ack_delay 25 ms, active_connection_id_limit 2, ack_delay_exponent 3,
// max_datagram_frame_size "invalid", max_udp_payload_size maximal; zero for the others);
// durations saturate at MaxInt64, ack_delay_exponent at 255.
func uCheckView(o *uOut, tp *wire.TransportParameters, pre []fpParam, typed []bool, scid []byte, detail string) {
	last := map[uint64]uint64{}
	has := map[uint64]bool{}
	wantSCID := scid
	for i, p := range pre {
		if p.ID == 0xc {
			has[0xc] = true
			continue
		}
		if p.ID == 0xf {
			if typed[i] && len(p.Val) > 0 {
				wantSCID = p.Val
			}
			continue
		}
		if v, n, ok := fpReadVarint(p.Val); ok && n == len(p.Val) {
			last[p.ID], has[p.ID] = v, true
		}
	}
	chk := func(name string, id uint64, got int64, scale int64, def int64) {
		want := def
		if has[id] {
			v := last[id]
			if scale > 1 && v > uint64(math.MaxInt64/scale) {
				want = math.MaxInt64
			} else {
				want = int64(v) * scale
			}
		}
		if got != want {
			o.fail("uspec/populate-view", fmt.Sprintf("%s = %d, the list (last single-varint parameter %#x, else the default) says %d", name, got, id, want), detail)
		}
	}
	chk("MaxIdleTimeout", 0x1, int64(tp.MaxIdleTimeout), int64(time.Millisecond), 0)
	chk("MaxUDPPayloadSize", 0x3, int64(tp.MaxUDPPayloadSize), 1, int64(protocol.MaxByteCount))
	chk("InitialMaxData", 0x4, int64(tp.InitialMaxData), 1, 0)
	chk("InitialMaxStreamDataBidiLocal", 0x5, int64(tp.InitialMaxStreamDataBidiLocal), 1, 0)
	chk("InitialMaxStreamDataBidiRemote", 0x6, int64(tp.InitialMaxStreamDataBidiRemote), 1, 0)
	chk("InitialMaxStreamDataUni", 0x7, int64(tp.InitialMaxStreamDataUni), 1, 0)
	chk("MaxBidiStreamNum", 0x8, int64(tp.MaxBidiStreamNum), 1, 0)
	chk("MaxUniStreamNum", 0x9, int64(tp.MaxUniStreamNum), 1, 0)
	chk("MaxAckDelay", 0xb, int64(tp.MaxAckDelay), int64(time.Millisecond), int64(protocol.DefaultMaxAckDelay))
	chk("ActiveConnectionIDLimit", 0xe, int64(tp.ActiveConnectionIDLimit), 1, protocol.DefaultActiveConnectionIDLimit)
	chk("MaxDatagramFrameSize", 0x20, int64(tp.MaxDatagramFrameSize), 1, int64(protocol.InvalidByteCount))
	wantADE := int64(protocol.DefaultAckDelayExponent)
	if has[0xa] {
		wantADE = int64(min(last[0xa], 255))
	}
	if int64(tp.AckDelayExponent) != wantADE {
		o.fail("uspec/populate-view", fmt.Sprintf("AckDelayExponent = %d, the list says %d", tp.AckDelayExponent, wantADE), detail)
	}
	if tp.DisableActiveMigration != has[0xc] {
		o.fail("uspec/populate-view", fmt.Sprintf("DisableActiveMigration = %v", tp.DisableActiveMigration), detail)
	}
	if !bytes.Equal(tp.InitialSourceConnectionID.Bytes(), wantSCID) {
		o.fail("uspec/populate-view", fmt.Sprintf("InitialSourceConnectionID = %x, want %x", tp.InitialSourceConnectionID.Bytes(), wantSCID), detail)
	}
}

func uTypedFlags(ps []uPar, l tls.TransportParameters) []bool {
	out := make([]bool, len(l))
	for i, tp := range l {
		out[i] = uTyped(ps, tp)
	}
	return out
}

// uAfterTerm prints the list PopulateFromUQUIC leaves behind; a replaced
// initial_source_connection_id is a new typed object.
func uAfterTerm(ps []uPar, l tls.TransportParameters) string {
	s := make([]string, len(l))
	for i, tp := range l {
		t := uTyped(ps, tp)
		if _, ok := tp.(tls.InitialSourceConnectionID); ok {
			t = true
		}
		s[i] = u.Pair(u.ZU(tp.ID()), u.Hex(tp.Value()), u.B(t))
	}
	return u.List(s)
}

func uPopulateCase(o *uOut, r *u.Rng) {
	ps := uGenList(r)
	in := uTPs(ps)
	inTerm := uTerm(ps, in)
	pre := uSnapshot(in)
	typed := uTypedFlags(ps, in)
	scid := r.Bytes([]int{0, 0, 3, 6, 8, 20}[r.Intn(6)])
	l := append(tls.TransportParameters{}, in...)
	expectPanic := uExpectPanic(ps, l)
	tp := &wire.TransportParameters{InitialSourceConnectionID: protocol.ParseConnectionID(scid)}
	ok, msg := uPopulate(tp, l)
	detail := fmt.Sprintf("params=%s scid=%x", inTerm, scid)
	res := "None"
	if !ok {
		o.dist["populate panic"]++
		if !expectPanic {
			o.fail("uspec/panic", "PopulateFromUQUIC panicked: "+msg, detail)
		}
	} else {
		o.dist["populate ok"]++
		if expectPanic {
			o.fail("uspec/panic", "PopulateFromUQUIC was expected to panic on this list (harness expectation)", detail)
		}
		uCheckView(o, tp, pre, typed, scid, detail)
		ext := &tls.QUICTransportParametersExtension{TransportParameters: l}
		body, err := uWireOf(ext)
		if err != nil || !bytes.Equal(body, tp.ClientOverride) {
			o.fail("uspec/populate-override", fmt.Sprintf("ClientOverride %x differs from what uTLS serialises %x (err=%v)", tp.ClientOverride, body, err), detail)
		}
		// the wire list is the input list, an empty typed initial_source_connection_id filled in
		exp := append([]fpParam{}, pre...)
		cur := scid
		for i := range exp {
			if exp[i].ID == 0xf && typed[i] {
				if len(exp[i].Val) == 0 {
					exp[i].Val = cur
				} else {
					cur = exp[i].Val
				}
			}
		}
		wps, err := fpReadParams(body)
		if err != nil || !fpSameOrder(exp, wps) {
			o.fail("uspec/wire-mismatch", fmt.Sprintf("after PopulateFromUQUIC the extension does not read back as the list (err=%v)", err), detail+" read="+fpParamsString(wps))
		}
		if m := fpRawVerbatim(pre, wps); m != nil {
			o.fail("uspec/raw-verbatim", fmt.Sprintf("raw parameter %x=%x is not in the extension with the spec's bytes", m.ID, m.Val), detail+" read="+fpParamsString(wps))
		}
		res = u.Opt(true, u.Pair(uViewTerm(tp), uAfterTerm(ps, l), u.Hex(tp.ClientOverride)))
	}
	nt := 0
	if ok && len(in) > 0 {
		nt = 1
	}
	fmt.Fprintf(o.w, "CASE %d %s\n", nt, u.App("PopCase", inTerm, u.Hex(scid), res))
}

// uDialCase: the sequence of u_connection.go:110-140 on one list, through the exported
// functions in the same order: suppress, optional shuffle, PopulateFromUQUIC, then uTLS
// serialises the slice.
func uDialCase(o *uOut, r *u.Rng) {
	ps := uGenList(r)
	sup := uGenSuppress(r, ps)
	randomize := r.Bool()
	in := uTPs(ps)
	inTerm := uTerm(ps, in)
	scid := r.Bytes([]int{0, 0, 3, 6, 8}[r.Intn(5)])
	ext := &tls.QUICTransportParametersExtension{TransportParameters: append(tls.TransportParameters{}, in...)}
	quic.SuppressQUICTransportParameters(ext, sup)
	kept := uSnapshot(ext.TransportParameters)
	keptTyped := uTypedFlags(ps, ext.TransportParameters)
	var sw []string
	if randomize {
		seed := int64(r.U64() >> 1)
		mrand.Seed(seed)
		mrand.Shuffle(len(ext.TransportParameters), func(i, j int) { sw = append(sw, u.Pair(u.Z(int64(i)), u.Z(int64(j)))) })
		mrand.Seed(seed)
		quic.ShuffleQUICTransportParameters(ext)
	}
	expectPanic := uExpectPanic(ps, ext.TransportParameters)
	tp := &wire.TransportParameters{InitialSourceConnectionID: protocol.ParseConnectionID(scid)}
	ok, msg := uPopulate(tp, ext.TransportParameters)
	detail := fmt.Sprintf("params=%s suppress=%v randomize=%v scid=%x", inTerm, sup, randomize, scid)
	res := "None"
	if !ok {
		if !expectPanic {
			o.fail("uspec/panic", "PopulateFromUQUIC panicked: "+msg, detail)
		}
	} else {
		body, err := uWireOf(ext)
		if err != nil {
			o.fail("uspec/dial-wire", "extension does not serialise: "+err.Error(), detail)
			return
		}
		wps, err := fpReadParams(body)
		// expected: kept parameters; an empty typed initial_source_connection_id carries a
		// source connection ID (the connection's, or an earlier explicit one)
		exp := append([]fpParam{}, kept...)
		hasExplicit := false
		for i := range exp {
			if exp[i].ID == 0xf && keptTyped[i] && len(exp[i].Val) > 0 {
				hasExplicit = true
			}
		}
		for i := range exp {
			if exp[i].ID == 0xf && keptTyped[i] && len(exp[i].Val) == 0 && !hasExplicit {
				exp[i].Val = scid
			}
		}
		good := err == nil
		if good && !hasExplicit {
			if randomize {
				good = fpSameMultiset(exp, wps)
			} else {
				good = fpSameOrder(exp, wps)
			}
		} else if good { // ids only (which explicit id fills an empty one depends on the order)
			good = fpEqU64(fpCanonIDs(exp), fpCanonIDs(wps))
		}
		if !good {
			o.fail("uspec/dial-wire", fmt.Sprintf("the extension does not carry exactly the kept parameters (err=%v)", err), detail+" kept="+fpParamsString(exp)+" wire="+fpParamsString(wps))
		}
		for _, p := range wps {
			if !uKeep(p.ID, sup) {
				o.fail("uspec/dial-wire", fmt.Sprintf("suppressed parameter %x is in the extension", p.ID), detail)
			}
		}
		if m := fpRawVerbatim(kept, wps); m != nil {
			o.fail("uspec/raw-verbatim", fmt.Sprintf("raw parameter %x=%x is not in the extension with the spec's bytes", m.ID, m.Val), detail+" wire="+fpParamsString(wps))
		}
		if !bytes.Equal(body, tp.ClientOverride) {
			o.fail("uspec/populate-override", fmt.Sprintf("ClientOverride %x differs from what uTLS serialises %x", tp.ClientOverride, body), detail)
		}
		res = u.Opt(true, u.Pair(uViewTerm(tp), uAfterTerm(ps, ext.TransportParameters), u.Hex(body)))
	}
	nt := 0
	if ok && len(kept) >= 2 {
		nt = 1
	}
	o.dist[fmt.Sprintf("dial randomize=%v", randomize)]++
	fmt.Fprintf(o.w, "CASE %d %s\n", nt, u.App("DialCase", inTerm, uZUList(sup), u.B(randomize), u.List(sw), u.Hex(scid), res))
}

// uReuse: the dial sequence (suppress, shuffle, populate, serialise) twice on ONE extension
// object. Observation only (INFO + DIST): uTLS returns the first bytes again. Whether a
// re-dialled QUICSpec is affected is decided by simfingerprint's reuse-* monitors.
func uReuse(o *uOut, r *u.Rng) {
	n := r.Range(6, 10)
	l := make(tls.TransportParameters, n)
	for i := range l {
		l[i] = &tls.FakeQUICTransportParameter{Id: uint64(0x200 + i), Val: []byte{byte(i)}}
	}
	ext := &tls.QUICTransportParametersExtension{TransportParameters: l}
	var first []byte
	for d := 0; d < 2; d++ {
		var sup []uint64
		if d == 1 && r.Bool() {
			sup = []uint64{uint64(0x200 + r.Intn(n))} // the caller suppresses one more parameter
		}
		quic.SuppressQUICTransportParameters(ext, sup)
		seed := int64(r.U64() >> 1)
		mrand.Seed(seed)
		quic.ShuffleQUICTransportParameters(ext)
		tp := &wire.TransportParameters{}
		if ok, msg := uPopulate(tp, ext.TransportParameters); !ok {
			o.fail("uspec/panic", "PopulateFromUQUIC panicked: "+msg, "reuse")
			return
		}
		body, err := uWireOf(ext)
		if err != nil {
			o.fail("uspec/wire-mismatch", err.Error(), "reuse")
			return
		}
		wps, _ := fpReadParams(body)
		cur := uSnapshot(ext.TransportParameters)
		detail := fmt.Sprintf("dial#%d seed=%d suppress=%v list=%s wire=%s override=%x first-dial-wire=%x", d, seed, sup, fpParamsString(cur), fpParamsString(wps), tp.ClientOverride, first)
		if !fpSameOrder(cur, wps) || !bytes.Equal(body, tp.ClientOverride) {
			if d == 0 {
				o.fail("uspec/wire-mismatch", "a dial's extension bytes are not its own parameter list", detail)
			} else if o.dist["reuse stale (uTLS cache)"] == 0 {
				// Not a monitor: the harness itself re-used the extension object here. This only
				// documents why newUClientConnection must not (uTLS caches the bytes on first Len()).
				fmt.Fprintf(o.w, "INFO\tobservation: one QUICTransportParametersExtension object serialised twice returns the first bytes: %s\n", detail)
			}
			if d > 0 {
				o.dist["reuse stale (uTLS cache)"]++
			}
		}
		if d == 0 {
			first = body
		}
	}
	o.dist["reuse"]++
}

// uObserveGreaseVersion: observation only (INFO). version_information with VERSION_GREASE
// (all built-in parrots) re-draws the GREASE version on every Value() call, so ClientOverride
// (marshalled by PopulateFromUQUIC) and the bytes uTLS caches for the ClientHello differ in
// that word; ClientOverride is not sent by a client. Also: uTLS forms the GREASE version as
// rand|0x0a0a0a0a, which is not always of the reserved form 0x?a?a?a?a.
func uObserveGreaseVersion(o *uOut) {
	l := tls.TransportParameters{&tls.VersionInformation{ChoosenVersion: tls.VERSION_1, AvailableVersions: []uint32{tls.VERSION_GREASE, tls.VERSION_1}, LegacyID: true}}
	diff, odd := 0, 0
	var ex string
	for i := 0; i < 20; i++ {
		tp := &wire.TransportParameters{}
		ext := &tls.QUICTransportParametersExtension{TransportParameters: l}
		if ok, _ := uPopulate(tp, l); !ok {
			return
		}
		body, err := uWireOf(ext)
		if err != nil {
			return
		}
		if !bytes.Equal(body, tp.ClientOverride) {
			diff++
			ex = fmt.Sprintf("override=%x wire=%x", tp.ClientOverride, body)
		}
		if len(body) >= 13 && (body[9]&0x0f != 0x0a || body[10]&0x0f != 0x0a || body[11]&0x0f != 0x0a || body[12]&0x0f != 0x0a) {
			odd++
		}
	}
	fmt.Fprintf(o.w, "INFO\tobservation: version_information with a GREASE version: ClientOverride != extension bytes in %d of 20 runs (%s); GREASE version not of the form 0x?a?a?a?a in %d of 20\n", diff, ex, odd)
}

// uDistribution: support for the distribution claim: every permutation of lists of 2..5
// distinct parameters is produced, position frequencies within a chi-square bound.
func uDistribution(o *uOut, r *u.Rng, thorough bool) {
	for n := 2; n <= 5; n++ {
		fact := 1
		for i := 2; i <= n; i++ {
			fact *= i
		}
		trials := fact * 40
		if thorough {
			trials = fact * 400
		}
		base := make(tls.TransportParameters, n)
		for i := range base {
			base[i] = &tls.FakeQUICTransportParameter{Id: uint64(0x100 + i), Val: []byte{byte(i)}}
		}
		perms := map[string]int{}
		pos := make([][]int, n) // pos[element][position]
		for i := range pos {
			pos[i] = make([]int, n)
		}
		for t := 0; t < trials; t++ {
			mrand.Seed(int64(r.U64() >> 1))
			ext := &tls.QUICTransportParametersExtension{TransportParameters: append(tls.TransportParameters{}, base...)}
			quic.ShuffleQUICTransportParameters(ext)
			key := ""
			for p, tp := range ext.TransportParameters {
				e := int(tp.ID() - 0x100)
				pos[e][p]++
				key += fmt.Sprint(e)
			}
			perms[key]++
		}
		if len(perms) != fact {
			o.fail("uspec/perm-coverage", fmt.Sprintf("only %d of %d permutations of a %d-element list were produced in %d shuffles", len(perms), fact, n, trials), fmt.Sprint(perms))
		}
		exp := float64(trials) / float64(n)
		chi := 0.0
		for e := range pos {
			for p := range pos[e] {
				d := float64(pos[e][p]) - exp
				chi += d * d / exp
			}
		}
		dof := (n - 1) * (n - 1)
		bound := float64(dof) + 8*sqrtF(2*float64(dof)) + 10 // far in the tail for any dof used here
		fmt.Fprintf(o.w, "INFO\tshuffle distribution n=%d: %d/%d permutations in %d trials, position chi2=%.1f (dof %d, bound %.0f)\n", n, len(perms), fact, trials, chi, dof, bound)
		if chi > bound {
			o.fail("uspec/perm-chi2", fmt.Sprintf("position frequencies of a %d-element shuffle deviate from uniform: chi2=%.1f > %.0f", n, chi, bound), fmt.Sprint(pos))
		}
	}
}

func sqrtF(x float64) float64 {
	z := x
	if z <= 0 {
		return 0
	}
	for i := 0; i < 40; i++ {
		z = (z + x/z) / 2
	}
	return z
}

func runUSpec(w *bufio.Writer, seed uint64, n int, _ []string) {
	r := u.NewRng(seed)
	o := &uOut{w: w, seen: map[string]int{}, dist: map[string]int{}}
	guard := func(name string, f func(*uOut, *u.Rng)) {
		cr := r.Fork()
		defer func() {
			if p := recover(); p != nil {
				o.fail("uspec/panic", fmt.Sprintf("%s: %v", name, p), "")
			}
		}()
		f(o, cr)
	}
	// nil extension / nil list: documented no-ops
	if quic.SuppressQUICTransportParameters(nil, []uint64{1}) != nil {
		o.fail("uspec/suppress", "SuppressQUICTransportParameters(nil, ...) != nil", "")
	}
	for i := 0; i < n; i++ {
		guard("suppress", uSuppressCase)
		guard("shuffle", uShuffleCase)
		guard("ids", uIdsCase)
		guard("wire", uWireCase)
		guard("populate", uPopulateCase)
		guard("dial", uDialCase)
		if i%10 == 0 {
			guard("reuse", uReuse)
		}
	}
	uObserveGreaseVersion(o)
	uDistribution(o, r, os.Getenv("VERIF_TIER") == "thorough")
	keys := make([]string, 0, len(o.dist))
	for k := range o.dist {
		keys = append(keys, k)
	}
	sort.Strings(keys)
	for _, k := range keys {
		fmt.Fprintf(w, "DIST\t%s\t%d\n", k, o.dist[k])
	}
}
