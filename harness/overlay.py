#!/usr/bin/env python3
"""Writes the -overlay JSON that maps /verif/harness/** into virtual paths inside /repo."""
import json, os, sys
H = os.path.dirname(os.path.abspath(__file__))
REPO = os.environ.get("VERIF_REPO", "/repo")
# harness dir -> package dir inside the repo
MAP = {
    "drv": "internal/verifdrv",
    "util": "internal/verifutil",
    "quicvarint": "quicvarint",
    "quic": ".",
    "ackhandler": "internal/ackhandler",
    "wire": "internal/wire",
    "handshake": "internal/handshake",
    "flowcontrol": "internal/flowcontrol",
    "congestion": "internal/congestion",
    "protocol": "internal/protocol",
    "http3": "http3",
}
repl = {}
for d, pkg in MAP.items():
    src = os.path.join(H, d)
    if not os.path.isdir(src):
        continue
    for f in sorted(os.listdir(src)):
        if f.endswith(".go"):
            name = f if d in ("drv", "util") else "zz_verif_" + f
            repl[os.path.normpath(os.path.join(REPO, pkg, name))] = os.path.join(src, f)
out = sys.argv[1]
json.dump({"Replace": repl}, open(out, "w"), indent=1)
