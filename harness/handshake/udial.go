//go:build verif

package handshake

import (
	"github.com/refraction-networking/uquic/internal/protocol"
	"github.com/refraction-networking/uquic/internal/utils"
)

// C02 (udial / simdial). Add-only.

// VerifClientInitialOpener returns the opener a server derives for the client's Initial
// packets from the destination connection ID of the first Initial (RFC 9001 5.2). The C02
// harness uses it to read the client's first flight off the simulated wire.
func VerifClientInitialOpener(origDestConnID protocol.ConnectionID, v protocol.Version) LongHeaderOpener {
	_, opener := NewInitialAEAD(origDestConnID, protocol.PerspectiveServer, v)
	return opener
}

// UdialKeyClass is one getter's answer in one key phase: 0 = keys returned,
// 1 = ErrKeysNotYetAvailable, 2 = ErrKeysDropped, 3 = another error.
type UdialKeyClass struct {
	Phase  string // which keys are installed
	Getter string
	Plain  int // cryptoSetup (plain Transport, nil spec)
	Spec   int // uCryptoSetup (UTransport with a QUICSpec)
}

func udialErrClass(err error) int {
	switch err {
	case nil:
		return 0
	case ErrKeysNotYetAvailable:
		return 1
	case ErrKeysDropped:
		return 2
	}
	return 3
}

// VerifUdialKeyPhases builds a plain and a spec-driven crypto setup with the same keys
// installed -- every combination of Initial / Handshake / 0-RTT / 1-RTT keys present or absent --
// and asks each of the eight sealer / opener getters. "A UTransport's crypto setup differs from
// the plain one only in the ClientHello": the answers must be of the same class.
func VerifUdialKeyPhases() []UdialKeyClass {
	var out []UdialKeyClass
	dcid := protocol.ParseConnectionID([]byte{1, 2, 3, 4, 5, 6, 7, 8})
	for m := 0; m < 16; m++ {
		ini, hs, z, one := m&1 != 0, m&2 != 0, m&4 != 0, m&8 != 0
		phase := "initial=" + udialYN(ini) + " handshake=" + udialYN(hs) + " 0rtt=" + udialYN(z) + " 1rtt=" + udialYN(one)
		mk := func() (*cryptoSetup, *uCryptoSetup) {
			sealer, opener := NewInitialAEAD(dcid, protocol.PerspectiveClient, protocol.Version1)
			p := &cryptoSetup{rttStats: &utils.RTTStats{}, logger: utils.DefaultLogger, perspective: protocol.PerspectiveClient}
			s := &uCryptoSetup{rttStats: &utils.RTTStats{}, logger: utils.DefaultLogger, perspective: protocol.PerspectiveClient}
			if ini {
				p.initialSealer, p.initialOpener, s.initialSealer, s.initialOpener = sealer, opener, sealer, opener
			}
			if hs {
				p.handshakeSealer, p.handshakeOpener, s.handshakeSealer, s.handshakeOpener = sealer, opener, sealer, opener
			}
			if z {
				p.zeroRTTSealer, p.zeroRTTOpener, s.zeroRTTSealer, s.zeroRTTOpener = sealer, opener, sealer, opener
			}
			p.has1RTTSealer, p.has1RTTOpener, s.has1RTTSealer, s.has1RTTOpener = one, one, one, one
			return p, s
		}
		type pair struct {
			name string
			f    func(p *cryptoSetup, s *uCryptoSetup) (error, error)
		}
		getters := []pair{
			{"GetInitialSealer", func(p *cryptoSetup, s *uCryptoSetup) (error, error) { _, a := p.GetInitialSealer(); _, b := s.GetInitialSealer(); return a, b }},
			{"GetInitialOpener", func(p *cryptoSetup, s *uCryptoSetup) (error, error) { _, a := p.GetInitialOpener(); _, b := s.GetInitialOpener(); return a, b }},
			{"GetHandshakeSealer", func(p *cryptoSetup, s *uCryptoSetup) (error, error) { _, a := p.GetHandshakeSealer(); _, b := s.GetHandshakeSealer(); return a, b }},
			{"GetHandshakeOpener", func(p *cryptoSetup, s *uCryptoSetup) (error, error) { _, a := p.GetHandshakeOpener(); _, b := s.GetHandshakeOpener(); return a, b }},
			{"Get0RTTSealer", func(p *cryptoSetup, s *uCryptoSetup) (error, error) { _, a := p.Get0RTTSealer(); _, b := s.Get0RTTSealer(); return a, b }},
			{"Get0RTTOpener", func(p *cryptoSetup, s *uCryptoSetup) (error, error) { _, a := p.Get0RTTOpener(); _, b := s.Get0RTTOpener(); return a, b }},
			{"Get1RTTSealer", func(p *cryptoSetup, s *uCryptoSetup) (error, error) { _, a := p.Get1RTTSealer(); _, b := s.Get1RTTSealer(); return a, b }},
			{"Get1RTTOpener", func(p *cryptoSetup, s *uCryptoSetup) (error, error) { _, a := p.Get1RTTOpener(); _, b := s.Get1RTTOpener(); return a, b }},
		}
		for _, g := range getters {
			p, s := mk()
			a, b := g.f(p, s)
			out = append(out, UdialKeyClass{Phase: phase, Getter: g.name, Plain: udialErrClass(a), Spec: udialErrClass(b)})
		}
	}
	return out
}

func udialYN(b bool) string {
	if b {
		return "yes"
	}
	return "no"
}
