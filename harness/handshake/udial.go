//go:build verif

package handshake

import "github.com/refraction-networking/uquic/internal/protocol"

// C02 (udial / simdial). Add-only.

// VerifClientInitialOpener returns the opener a server derives for the client's Initial
// packets from the destination connection ID of the first Initial (RFC 9001 5.2). The C02
// harness uses it to read the client's first flight off the simulated wire.
func VerifClientInitialOpener(origDestConnID protocol.ConnectionID, v protocol.Version) LongHeaderOpener {
	_, opener := NewInitialAEAD(origDestConnID, protocol.PerspectiveServer, v)
	return opener
}
