//go:build verif

package handshake

import "github.com/refraction-networking/uquic/internal/wire"

// VerifAdvEnfOurParams returns the connection's own record of its transport parameters
// as held by the crypto setup (spec-driven or plain).
func VerifAdvEnfOurParams(cs any) *wire.TransportParameters {
	switch h := cs.(type) {
	case *uCryptoSetup:
		return h.ourParams
	case *cryptoSetup:
		return h.ourParams
	}
	return nil
}
