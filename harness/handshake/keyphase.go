//go:build verif

package handshake

import (
	"crypto"
	"errors"
	"time"

	tls "github.com/refraction-networking/utls"
	"golang.org/x/crypto/hkdf"

	"github.com/refraction-networking/uquic/internal/monotime"
	"github.com/refraction-networking/uquic/internal/protocol"
	"github.com/refraction-networking/uquic/internal/qerr"
	"github.com/refraction-networking/uquic/internal/utils"
)

// VerifUAEAD wraps the unexported updatableAEAD for the C05 `keyphase` unit (add-only:
// calls the constructor and methods, reads fields for observation; the only field written
// is invalidPacketLimit, which the code sets from a constant no test can reach).
type VerifUAEAD struct {
	a   *updatableAEAD
	rtt *utils.RTTStats
}

// Result classes of Open / SetLargestAcked as seen by the harness.
const (
	VerifOK               = 0
	VerifDecryptionFailed = 1
	VerifKeysDropped      = 2
	VerifKeyUpdateError   = 3
	VerifAEADLimitReached = 4
	VerifOtherError       = 9
)

func VerifCipherSuiteIDs() []uint16 {
	return []uint16{tls.TLS_AES_128_GCM_SHA256, tls.TLS_AES_256_GCM_SHA384, tls.TLS_CHACHA20_POLY1305_SHA256}
}

// VerifNewUAEADPair builds a client/server pair the way setupEndpoints in
// updatable_aead_test.go does: fixed cipher suite, two traffic secrets.
// rttSample > 0 feeds one RTT sample into the endpoint's RTTStats (PTO is an oracle).
func VerifNewUAEADPair(suiteID uint16, v protocol.Version, secret1, secret2 []byte, rttSampleA, rttSampleB time.Duration) (*VerifUAEAD, *VerifUAEAD) {
	cs := getCipherSuite(suiteID)
	ra, rb := utils.NewRTTStats(), utils.NewRTTStats()
	if rttSampleA > 0 {
		ra.UpdateRTT(rttSampleA, 0)
	}
	if rttSampleB > 0 {
		rb.UpdateRTT(rttSampleB, 0)
	}
	client := newUpdatableAEAD(ra, nil, utils.DefaultLogger, v)
	server := newUpdatableAEAD(rb, nil, utils.DefaultLogger, v)
	client.SetReadKey(cs, secret2)
	client.SetWriteKey(cs, secret1)
	server.SetReadKey(cs, secret1)
	server.SetWriteKey(cs, secret2)
	return &VerifUAEAD{a: client, rtt: ra}, &VerifUAEAD{a: server, rtt: rb}
}

func verifErrClass(err error) int {
	if err == nil {
		return VerifOK
	}
	if err == ErrDecryptionFailed {
		return VerifDecryptionFailed
	}
	if err == ErrKeysDropped {
		return VerifKeysDropped
	}
	var te *qerr.TransportError
	if errors.As(err, &te) {
		switch te.ErrorCode {
		case qerr.KeyUpdateError:
			return VerifKeyUpdateError
		case qerr.AEADLimitReached:
			return VerifAEADLimitReached
		}
	}
	return VerifOtherError
}

func (v *VerifUAEAD) KeyPhaseBit() protocol.KeyPhaseBit { return v.a.KeyPhase() }
func (v *VerifUAEAD) Seal(src []byte, pn protocol.PacketNumber, ad []byte) []byte {
	return v.a.Seal(nil, src, pn, ad)
}
func (v *VerifUAEAD) Open(src []byte, rcvTime int64, pn protocol.PacketNumber, kp protocol.KeyPhaseBit, ad []byte) ([]byte, int) {
	dec, err := v.a.Open(nil, src, monotime.Time(rcvTime), pn, kp, ad)
	return dec, verifErrClass(err)
}
func (v *VerifUAEAD) DecodePacketNumber(wirePN protocol.PacketNumber, l protocol.PacketNumberLen) protocol.PacketNumber {
	return v.a.DecodePacketNumber(wirePN, l)
}
func (v *VerifUAEAD) SetLargestAcked(pn protocol.PacketNumber) int {
	return verifErrClass(v.a.SetLargestAcked(pn))
}
func (v *VerifUAEAD) SetHandshakeConfirmed()         { v.a.SetHandshakeConfirmed() }
func (v *VerifUAEAD) SetInvalidPacketLimit(l uint64) { v.a.invalidPacketLimit = l }
func (v *VerifUAEAD) InvalidPacketLimit() uint64     { return v.a.invalidPacketLimit }
func (v *VerifUAEAD) EncryptHeader(sample []byte, firstByte *byte, hdrBytes []byte) {
	v.a.EncryptHeader(sample, firstByte, hdrBytes)
}
func (v *VerifUAEAD) DecryptHeader(sample []byte, firstByte *byte, hdrBytes []byte) {
	v.a.DecryptHeader(sample, firstByte, hdrBytes)
}
func (v *VerifUAEAD) Overhead() int { return v.a.Overhead() }

// ThreePTO is the oracle value startKeyDropTimer adds to the receive time (nanoseconds).
func (v *VerifUAEAD) ThreePTO() int64 { return (3 * v.rtt.PTO(true)).Nanoseconds() }

// Observation of the fields that are the property's subject.
func (v *VerifUAEAD) Phase() uint64                      { return uint64(v.a.keyPhase) }
func (v *VerifUAEAD) HasPrevKeys() bool                  { return v.a.prevRcvAEAD != nil }
func (v *VerifUAEAD) HighestRcvd() protocol.PacketNumber { return v.a.highestRcvdPN }
func (v *VerifUAEAD) InvalidCount() uint64               { return v.a.invalidPacketCount }

func VerifKeyPhaseConsts() [][2]any {
	return [][2]any{
		{"PP_KeyUpdateInterval", uint64(protocol.KeyUpdateInterval)},
		{"PP_KeyUpdateIntervalLoaded", keyUpdateInterval.Load()},
		{"PP_FirstKeyUpdateInterval", FirstKeyUpdateInterval},
		{"PP_InvalidPacketLimitAES", uint64(protocol.InvalidPacketLimitAES)},
		{"PP_InvalidPacketLimitChaCha", uint64(protocol.InvalidPacketLimitChaCha)},
	}
}

// VerifSealWithGeneration seals like an endpoint whose write secret is `secret` would after
// `gen` key updates, without any of the update rules (a misbehaving peer).
func VerifSealWithGeneration(suiteID uint16, v protocol.Version, secret []byte, gen uint64, pt []byte, pn protocol.PacketNumber, ad []byte) []byte {
	cs := getCipherSuite(suiteID)
	rogue := newUpdatableAEAD(utils.NewRTTStats(), nil, utils.DefaultLogger, v)
	ts := secret
	for i := uint64(0); i < gen; i++ {
		ts = rogue.getNextTrafficSecret(cs.Hash, ts)
	}
	rogue.SetWriteKey(cs, ts)
	return rogue.Seal(nil, pt, pn, ad)
}

// ---- C05 `protect` unit ----

func (v *VerifUAEAD) Opener() ShortHeaderOpener { return v.a }
func (v *VerifUAEAD) Sealer() ShortHeaderSealer { return v.a }

// verifRawMask computes the raw header-protection mask for a sample (the value the
// protector xors in before it selects 4 or 5 bits of the first byte): an oracle value for
// the model's abstract mask function.
func verifRawMask(hp headerProtector, sample []byte) []byte {
	if len(sample) != 16 {
		return nil
	}
	switch p := hp.(type) {
	case *aesHeaderProtector:
		out := make([]byte, 16)
		p.block.Encrypt(out, sample)
		return out[:5]
	case *chachaHeaderProtector:
		// recompute the keystream the way apply() does and read the protector's mask buffer
		var first byte
		q := &chachaHeaderProtector{key: p.key, isLongHeader: p.isLongHeader}
		q.apply(sample, &first, make([]byte, 4))
		return append([]byte{}, q.mask[:]...)
	}
	return nil
}

func VerifRawMaskLongSealer(s LongHeaderSealer, sample []byte) []byte {
	return verifRawMask(s.(*longHeaderSealer).headerProtector, sample)
}
func VerifRawMaskLongOpener(o LongHeaderOpener, sample []byte) []byte {
	return verifRawMask(o.(*longHeaderOpener).headerProtector, sample)
}
func (v *VerifUAEAD) RawMaskEnc(sample []byte) []byte {
	return verifRawMask(v.a.headerEncrypter, sample)
}
func (v *VerifUAEAD) RawMaskDec(sample []byte) []byte {
	return verifRawMask(v.a.headerDecrypter, sample)
}
func (v *VerifUAEAD) VerifHighestRcvd() int64 { return int64(v.a.highestRcvdPN) }
func VerifLongOpenerHighestRcvd(o LongHeaderOpener) int64 {
	return int64(o.(*longHeaderOpener).highestRcvdPN)
}

// VerifInitialKeys returns key, iv and header-protection key of both directions as
// NewInitialAEAD derives them (client first), for comparison with the RFC 9001 / RFC 9369
// Appendix A values.
func VerifInitialKeys(connID protocol.ConnectionID, v protocol.Version) (out [6][]byte) {
	cs, ss := computeSecrets(connID, v)
	out[0], out[1] = computeInitialKeyAndIV(cs, v)
	out[2] = hkdfExpandLabel(initialSuite.Hash, cs, []byte{}, hkdfHeaderProtectionLabel(v), initialSuite.KeyLen)
	out[3], out[4] = computeInitialKeyAndIV(ss, v)
	out[5] = hkdfExpandLabel(initialSuite.Hash, ss, []byte{}, hkdfHeaderProtectionLabel(v), initialSuite.KeyLen)
	return
}

// ---- key update derivation (RFC 9001 6.1 / RFC 9369 3.3.2) ----

// VerifNextTrafficSecret is the real updatableAEAD.getNextTrafficSecret for a version.
func VerifNextTrafficSecret(suiteID uint16, v protocol.Version, ts []byte) []byte {
	cs := getCipherSuite(suiteID)
	a := newUpdatableAEAD(utils.NewRTTStats(), nil, utils.DefaultLogger, v)
	return a.getNextTrafficSecret(cs.Hash, ts)
}

// VerifSuiteParams: hash output size and AEAD key length of a suite.
func VerifSuiteParams(suiteID uint16) (hashLen, keyLen int) {
	cs := getCipherSuite(suiteID)
	return cs.Hash.Size(), cs.KeyLen
}

// verifKULabel finds, by behaviour, the label getNextTrafficSecret uses for a version: the
// candidate whose HKDF-Expand-Label (the package's own) reproduces its output ("?" if none).
func verifKULabel(v protocol.Version) string {
	ts := []byte("0123456789abcdef0123456789abcdef")
	got := VerifNextTrafficSecret(tls.TLS_AES_128_GCM_SHA256, v, ts)
	h := getCipherSuite(tls.TLS_AES_128_GCM_SHA256).Hash
	for _, l := range []string{"quic ku", "quicv2 ku"} {
		if string(hkdfExpandLabel(h, ts, []byte{}, l, h.Size())) == string(got) {
			return l
		}
	}
	return "?"
}

func verifCoqString(s string) string { return "string := \"" + s + "\"%string" }

// VerifLabelConsts: the HKDF labels per version for the constants translator (key/iv are
// constants of the package, hp a function of the version, ku extracted by behaviour).
func VerifLabelConsts() [][2]any {
	return [][2]any{
		{"PP_hkdfLabelKeyV1", verifCoqString(hkdfLabelKeyV1)},
		{"PP_hkdfLabelKeyV2", verifCoqString(hkdfLabelKeyV2)},
		{"PP_hkdfLabelIVV1", verifCoqString(hkdfLabelIVV1)},
		{"PP_hkdfLabelIVV2", verifCoqString(hkdfLabelIVV2)},
		{"PP_hkdfLabelHPV1", verifCoqString(hkdfHeaderProtectionLabel(protocol.Version1))},
		{"PP_hkdfLabelHPV2", verifCoqString(hkdfHeaderProtectionLabel(protocol.Version2))},
		{"PP_hkdfLabelKUV1", verifCoqString(verifKULabel(protocol.Version1))},
		{"PP_hkdfLabelKUV2", verifCoqString(verifKULabel(protocol.Version2))},
	}
}

// ---- C05 `initialkeys` unit ----

// verifInitialLabel finds by behaviour which HKDF label computeSecrets uses for a side.
func verifInitialLabel(client bool) string {
	connID := protocol.ParseConnectionID([]byte{1, 2, 3, 4, 5, 6, 7, 8})
	found := ""
	for _, v := range []protocol.Version{protocol.Version1, protocol.Version2} {
		cs, ss := computeSecrets(connID, v)
		got := ss
		if client {
			got = cs
		}
		initialSecret := hkdf.Extract(crypto.SHA256.New, connID.Bytes(), getSalt(v))
		this := "?"
		for _, l := range []string{"client in", "server in"} {
			if string(hkdfExpandLabel(initialSuite.Hash, initialSecret, []byte{}, l, 32)) == string(got) {
				this = l
			}
		}
		// the label must not depend on the version (RFC 9369 keeps "client in"/"server in")
		if found != "" && found != this {
			return "?version-dependent"
		}
		found = this
	}
	return found
}

// VerifInitialConsts: salts (hex) and the "client in"/"server in" labels for the constants translator.
func VerifInitialConsts() [][2]any {
	hexs := func(b []byte) string {
		const d = "0123456789abcdef"
		out := make([]byte, 0, 2*len(b))
		for _, x := range b {
			out = append(out, d[x>>4], d[x&15])
		}
		return string(out)
	}
	return [][2]any{
		{"PP_quicSaltV1", verifCoqString(hexs(quicSaltV1))},
		{"PP_quicSaltV2", verifCoqString(hexs(quicSaltV2))},
		{"PP_initialLabelClient", verifCoqString(verifInitialLabel(true))},
		{"PP_initialLabelServer", verifCoqString(verifInitialLabel(false))},
	}
}

// VerifRetryConsts: the Retry integrity nonces (package variables) for the constants translator.
func VerifRetryConsts() [][2]any {
	hexs := func(b []byte) string {
		const d = "0123456789abcdef"
		out := make([]byte, 0, 2*len(b))
		for _, x := range b {
			out = append(out, d[x>>4], d[x&15])
		}
		return string(out)
	}
	return [][2]any{
		{"PP_retryNonceV1", verifCoqString(hexs(retryNonceV1[:]))},
		{"PP_retryNonceV2", verifCoqString(hexs(retryNonceV2[:]))},
	}
}

// ChaChaHPKeyEnc returns the header-protection key of the sending direction when the suite is
// TLS_CHACHA20_POLY1305_SHA256 (nil otherwise): input of the Gallina ChaCha20 mask.
func (v *VerifUAEAD) ChaChaHPKeyEnc() []byte {
	if p, ok := v.a.headerEncrypter.(*chachaHeaderProtector); ok {
		return append([]byte{}, p.key[:]...)
	}
	return nil
}
