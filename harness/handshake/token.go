//go:build verif

package handshake

import (
	"encoding/asn1"
	"net"
)

// C14 (tokens). Add-only wrappers around the token generator / protector.

// VerifTokenConsts feeds the constants translator.
func VerifTokenConsts() [][2]any {
	return [][2]any{
		{"tokenNonceSize", int64(tokenNonceSize)},
		{"tokenPrefixIP", int64(tokenPrefixIP)},
		{"tokenPrefixString", int64(tokenPrefixString)},
	}
}

// VerifEncodeRemoteAddr is encodeRemoteAddr.
func VerifEncodeRemoteAddr(a net.Addr) []byte { return encodeRemoteAddr(a) }

// VerifTokenAddr reads the unexported address field of a decoded token.
func VerifTokenAddr(t *Token) []byte { return t.encodedRemoteAddr }

// VerifTokenOpen is the protector's DecodeToken: the plaintext a byte string opens to (oracle
// for the model: HKDF + AES-GCM are outside /repo).
func VerifTokenOpen(g *TokenGenerator, enc []byte) ([]byte, bool) {
	data, err := g.tokenProtector.DecodeToken(enc)
	return data, err == nil
}

// VerifTokenSeal is the protector's NewToken on an arbitrary plaintext (what only the key
// holder can do): used to reach the unmarshal-error and trailing-bytes branches of DecodeToken.
func VerifTokenSeal(g *TokenGenerator, plain []byte) ([]byte, error) {
	return g.tokenProtector.NewToken(plain)
}

// VerifTokenRecord is the ASN.1 record as DecodeToken sees it (oracle: encoding/asn1).
type VerifTokenRecord struct {
	OK       bool
	IsRetry  bool
	Addr     []byte
	Ts, RTT  int64
	ODCID    []byte
	RSCID    []byte
	RestLen  int
}

func VerifTokenUnmarshal(plain []byte) VerifTokenRecord {
	t := &token{}
	rest, err := asn1.Unmarshal(plain, t)
	if err != nil {
		return VerifTokenRecord{}
	}
	return VerifTokenRecord{OK: true, IsRetry: t.IsRetryToken, Addr: t.RemoteAddr, Ts: t.Timestamp, RTT: t.RTT,
		ODCID: t.OriginalDestConnectionID, RSCID: t.RetrySrcConnectionID, RestLen: len(rest)}
}

// VerifTokenMarshal builds the plaintext of a token with chosen fields (asn1 as in NewRetryToken / NewToken).
func VerifTokenMarshal(isRetry bool, addr []byte, ts, rtt int64, odcid, rscid []byte) ([]byte, error) {
	return asn1.Marshal(token{IsRetryToken: isRetry, RemoteAddr: addr, Timestamp: ts, RTT: rtt,
		OriginalDestConnectionID: odcid, RetrySrcConnectionID: rscid})
}
