//go:build verif

package handshake

import (
	"encoding/asn1"
	"net"

	"github.com/refraction-networking/uquic/internal/wire"
)

// Wrappers for the tokens unit (address-validation tokens and session tickets); add-only.

// VerifTokenPayload is the ASN.1 structure sealed inside a token, built from explicit fields.
func VerifTokenPayload(isRetry bool, addr []byte, ts, rttMicros int64, odcid, rscid []byte) ([]byte, error) {
	return asn1.Marshal(token{IsRetryToken: isRetry, RemoteAddr: addr, Timestamp: ts, RTT: rttMicros,
		OriginalDestConnectionID: odcid, RetrySrcConnectionID: rscid})
}

// VerifSealToken / VerifOpenToken expose the token protector (HKDF + AES-256-GCM).
func VerifSealToken(g *TokenGenerator, payload []byte) ([]byte, error) {
	return g.tokenProtector.NewToken(payload)
}

func VerifOpenToken(g *TokenGenerator, tok []byte) ([]byte, error) {
	return g.tokenProtector.DecodeToken(tok)
}

func VerifTksTokenAddr(t *Token) []byte { return t.encodedRemoteAddr }

func VerifTksEncodeRemoteAddr(a net.Addr) []byte { return encodeRemoteAddr(a) }

const (
	VerifTokenNonceSize        = tokenNonceSize
	VerifSessionTicketRevision = sessionTicketRevision
	VerifExtraPrefix           = extraPrefix
)

func VerifTicketMarshal(p *wire.TransportParameters) []byte {
	return (&sessionTicket{Parameters: p}).Marshal()
}

func VerifTicketUnmarshal(b []byte) (*wire.TransportParameters, error) {
	var t sessionTicket
	if err := t.Unmarshal(b); err != nil {
		return nil, err
	}
	return t.Parameters, nil
}

func VerifAddExtraPrefix(b []byte) []byte    { return addSessionStateExtraPrefix(b) }
func VerifFindExtra(extras [][]byte) []byte { return findSessionStateExtraData(extras) }
