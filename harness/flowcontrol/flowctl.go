//go:build verif

package flowcontrol

import (
	"github.com/refraction-networking/uquic/internal/protocol"
	"github.com/refraction-networking/uquic/internal/qerr"
)

// VerifFlowCtlConsts exposes the constants the FlowCtl model uses to the constants
// translator. The two float constants are exported as exact rationals over 1000; the
// translator refuses (panics) when they are not representable that way, so an edit to a
// value like 0.3 is reported instead of silently rounded.
func VerifFlowCtlConsts() [][2]any {
	rat := func(x float64) int64 {
		n := int64(x*1000 + 0.5)
		if float64(n)/1000 != x {
			panic("flowctl: float constant is not a multiple of 1/1000")
		}
		return n
	}
	return [][2]any{
		{"fcKeepNum", rat(1 - protocol.WindowUpdateThreshold)},
		{"fcKeepDen", int64(1000)},
		{"fcMultNum", rat(protocol.ConnectionFlowControlMultiplier)},
		{"fcMultDen", int64(1000)},
		{"fcErrFlowControl", int64(qerr.FlowControlError)},
		{"fcErrFinalSize", int64(qerr.FinalSizeError)},
	}
}

func verifBase(c *baseFlowController) [10]int64 {
	c.mutex.Lock()
	defer c.mutex.Unlock()
	return [10]int64{
		int64(c.bytesSent), int64(c.sendWindow), int64(c.lastBlockedAt),
		int64(c.bytesRead), int64(c.highestReceived), int64(c.receiveWindow),
		int64(c.receiveWindowSize), int64(c.maxReceiveWindowSize),
		int64(c.epochStartTime), int64(c.epochStartOffset),
	}
}

// Indices into the counter arrays returned by VerifStreamState / VerifConnState.
const (
	VBytesSent = iota
	VSendWindow
	VLastBlockedAt
	VBytesRead
	VHighestReceived
	VReceiveWindow
	VReceiveWindowSize
	VMaxReceiveWindowSize
	VEpochStartTime
	VEpochStartOffset
)

// VerifStreamState reads the ten counters of a stream flow controller and its
// receivedFinalOffset flag (observation only).
func VerifStreamState(fc StreamFlowController) ([10]int64, bool) {
	c := fc.(*streamFlowController)
	return verifBase(&c.baseFlowController), c.receivedFinalOffset
}

// VerifConnState reads the ten counters of the connection flow controller.
func VerifConnState(fc ConnectionFlowController) [10]int64 {
	return verifBase(&fc.(*connectionFlowController).baseFlowController)
}
