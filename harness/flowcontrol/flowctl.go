//go:build verif

package flowcontrol

import (
	"reflect"

	"github.com/refraction-networking/uquic/internal/protocol"
	"github.com/refraction-networking/uquic/internal/qerr"
)

// VerifFlowCtlConsts exposes the constants the FlowCtl model uses to the constants
// translator. The two float constants are exported as exact rationals over 1000; the
// translator refuses (panics) when they are not representable that way, so an edit to a
// value like 0.3 is reported instead of silently rounded.
func VerifFlowCtlConsts() [][2]any {
	rat := func(x float64) int64 {
		n := int64(x*1000 + 0.5)
		if float64(n)/1000 != x {
			panic("flowctl: float constant is not a multiple of 1/1000")
		}
		return n
	}
	return [][2]any{
		{"fcKeepNum", rat(1 - protocol.WindowUpdateThreshold)},
		{"fcKeepDen", int64(1000)},
		{"fcMultNum", rat(protocol.ConnectionFlowControlMultiplier)},
		{"fcMultDen", int64(1000)},
		{"fcErrFlowControl", int64(qerr.FlowControlError)},
		{"fcErrFinalSize", int64(qerr.FinalSizeError)},
	}
}

// verifBase reads the counters by NAME through reflection, so that a refactoring of the struct
// (a renamed or removed field) does not break the harness build: a missing field reads as
// verifMissing and shows up as a correspondence mismatch instead. Slot VLastBlockedAt is NOT
// read at all (always 0): how a controller de-duplicates its "blocked" reports is an
// implementation detail; what is observed is the BEHAVIOUR, the sequence of IsNewlyBlocked
// results (every flowctl case ends with a probe of all controllers).
const verifMissing = int64(-1) << 61

func verifBase(c *baseFlowController) [10]int64 {
	c.mutex.Lock()
	defer c.mutex.Unlock()
	v := reflect.ValueOf(c).Elem()
	get := func(name string) int64 {
		f := v.FieldByName(name)
		if !f.IsValid() || !f.CanInt() {
			return verifMissing
		}
		return f.Int()
	}
	return [10]int64{
		get("bytesSent"), get("sendWindow"), 0,
		get("bytesRead"), get("highestReceived"), get("receiveWindow"),
		get("receiveWindowSize"), get("maxReceiveWindowSize"),
		get("epochStartTime"), get("epochStartOffset"),
	}
}

// Indices into the counter arrays returned by VerifStreamState / VerifConnState.
const (
	VBytesSent = iota
	VSendWindow
	VLastBlockedAt
	VBytesRead
	VHighestReceived
	VReceiveWindow
	VReceiveWindowSize
	VMaxReceiveWindowSize
	VEpochStartTime
	VEpochStartOffset
)

// VerifStreamState reads the ten counters of a stream flow controller and its
// receivedFinalOffset flag (observation only).
func VerifStreamState(fc StreamFlowController) ([10]int64, bool) {
	c := fc.(*streamFlowController)
	fin := false
	if f := reflect.ValueOf(c).Elem().FieldByName("receivedFinalOffset"); f.IsValid() && f.Kind() == reflect.Bool {
		fin = f.Bool()
	}
	return verifBase(&c.baseFlowController), fin
}

// VerifConnState reads the ten counters of the connection flow controller.
func VerifConnState(fc ConnectionFlowController) [10]int64 {
	return verifBase(&fc.(*connectionFlowController).baseFlowController)
}
