//go:build verif

package flowcontrol

import "github.com/refraction-networking/uquic/internal/protocol"

// VerifAdvEnfWindows reads the receive side of a flow controller: the offset up to which
// the peer may send (receiveWindow), the window size and its auto-tuning maximum.
func VerifAdvEnfWindows(fc any) (receiveWindow, receiveWindowSize, maxReceiveWindowSize protocol.ByteCount, ok bool) {
	switch c := fc.(type) {
	case *connectionFlowController:
		c.mutex.Lock()
		defer c.mutex.Unlock()
		return c.receiveWindow, c.receiveWindowSize, c.maxReceiveWindowSize, true
	case *streamFlowController:
		c.mutex.Lock()
		defer c.mutex.Unlock()
		return c.receiveWindow, c.receiveWindowSize, c.maxReceiveWindowSize, true
	}
	return 0, 0, 0, false
}
