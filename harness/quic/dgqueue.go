//go:build verif

package quic

// Verification harness for datagram_queue.go (unit `dgqueue`, property C01 claim (d)).

import (
	"context"

	"github.com/refraction-networking/uquic/internal/utils"
	"github.com/refraction-networking/uquic/internal/wire"
)

type VerifDgQueue struct {
	q       *datagramQueue
	HasData int
}

var errVerifDgClosed = errVerifShutdown

func VerifNewDgQueue() *VerifDgQueue {
	v := &VerifDgQueue{}
	v.q = newDatagramQueue(func() { v.HasData++ }, utils.DefaultLogger)
	return v
}

// Add blocks while the send queue is full.
func (v *VerifDgQueue) Add(data []byte) error {
	return v.q.Add(&wire.DatagramFrame{DataLenPresent: true, Data: data})
}

func (v *VerifDgQueue) Peek() ([]byte, bool) {
	f := v.q.Peek()
	if f == nil {
		return nil, false
	}
	return append([]byte{}, f.Data...), true
}
func (v *VerifDgQueue) Pop() { v.q.Pop() }
func (v *VerifDgQueue) Handle(data []byte) {
	v.q.HandleDatagramFrame(&wire.DatagramFrame{DataLenPresent: true, Data: data})
}

// Receive never blocks: the context is already cancelled, so an empty queue yields an error.
func (v *VerifDgQueue) Receive() ([]byte, bool) {
	ctx, cancel := context.WithCancel(context.Background())
	cancel()
	d, err := v.q.Receive(ctx)
	if err != nil {
		return nil, false
	}
	return d, true
}
func (v *VerifDgQueue) Close() { v.q.CloseWithError(errVerifDgClosed) }
func (v *VerifDgQueue) Lens() (send, rcv int) {
	v.q.sendMx.Lock()
	send = v.q.sendQueue.Len()
	v.q.sendMx.Unlock()
	v.q.rcvMx.Lock()
	rcv = len(v.q.rcvQueue)
	v.q.rcvMx.Unlock()
	return
}
