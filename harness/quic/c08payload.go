//go:build verif

package quic

import (
	"fmt"

	"github.com/refraction-networking/uquic/internal/monotime"
	"github.com/refraction-networking/uquic/internal/protocol"
	"github.com/refraction-networking/uquic/qlog"
)

// C08 payload unit: the frame loop of Conn.handleFrames on a real connection object
// (built by the streams-glue constructor of C15, which this file only calls).

type VerifC08Conn struct{ sg *VerifSGConn }

func NewVerifC08Conn(client, tracer bool) (*VerifC08Conn, error) {
	sg, err := NewVerifSGConn(client, tracer, 100, 100)
	if err != nil {
		return nil, err
	}
	return &VerifC08Conn{sg: sg}, nil
}

// HandleFrames runs Conn.handleFrames on a decrypted payload at the given level, with the tracer
// callback installed exactly when the connection has a qlogger (as handleShortHeaderPacket /
// handleLongHeaderPacket do). logged = number of frames the callback got, -1 if it was not called.
func (v *VerifC08Conn) HandleFrames(lvl protocol.EncryptionLevel, data []byte) (ae, np bool, logged int, err error, panicked string) {
	defer func() {
		if r := recover(); r != nil {
			panicked = fmt.Sprint(r)
		}
	}()
	c := v.sg.c
	logged = -1
	var log func([]qlog.Frame)
	if c.qlogger != nil {
		log = func(fs []qlog.Frame) { logged = len(fs) }
	}
	ae, np, _, err = c.handleFrames(data, protocol.ParseConnectionID([]byte{4, 3, 2, 1}), lvl, log, monotime.Now())
	return
}

func (v *VerifC08Conn) Shutdown() { v.sg.Shutdown() }
