//go:build verif

package quic

import (
	"github.com/refraction-networking/uquic/internal/protocol"
	"github.com/refraction-networking/uquic/internal/wire"
)

// C03VerifCryptoMgr drives a real cryptoStreamManager (receive side) over a real
// initialCryptoStream and two cryptoStreams.
type C03VerifCryptoMgr struct{ m *cryptoStreamManager }

func C03VerifNewCryptoMgr(isClient bool) *C03VerifCryptoMgr {
	return &C03VerifCryptoMgr{m: newCryptoStreamManager(newInitialCryptoStream(isClient), newCryptoStream(), newCryptoStream())}
}

// levels: 0 Initial, 1 Handshake, 2 1-RTT, 3 0-RTT
func c03Level(l int) protocol.EncryptionLevel {
	switch l {
	case 0:
		return protocol.EncryptionInitial
	case 1:
		return protocol.EncryptionHandshake
	case 2:
		return protocol.Encryption1RTT
	}
	return protocol.Encryption0RTT
}

// error classes as verifCryptoErrClass; 4 = "unexpected encryption level"
func (v *C03VerifCryptoMgr) Handle(l int, data []byte, offset int64) int64 {
	err := v.m.HandleCryptoFrame(&wire.CryptoFrame{Offset: protocol.ByteCount(offset), Data: data}, c03Level(l))
	if cls := verifCryptoErrClass(err); cls != 9 {
		return cls
	}
	if l == 3 {
		return 4
	}
	return 9
}
func (v *C03VerifCryptoMgr) Get(l int) []byte { return v.m.GetCryptoData(c03Level(l)) }
func (v *C03VerifCryptoMgr) Drop(l int) int64 { return verifCryptoErrClass(v.m.Drop(c03Level(l))) }
