//go:build verif

package quic

import (
	"context"
	"errors"

	"github.com/refraction-networking/uquic/internal/qerr"
)

// VerifH3SStubConn returns a *Conn on which CloseWithError works without a run loop:
// the first close error is stored in closeErr (exactly what the real method does) and the
// already-cancelled context lets CloseWithError return.  Used by the HTTP/3 stream unit
// (C18) so that http3.newStream / frameParser can be wired exactly as in production
// (closeConn = rawConn.CloseWithError = quic.Conn.CloseWithError).
func VerifH3SStubConn() *Conn {
	ctx, cancel := context.WithCancelCause(context.Background())
	cancel(nil)
	return &Conn{ctx: ctx, ctxCancel: cancel}
}

// VerifH3SStubConnClosed reports the application error code the stub was closed with.
func VerifH3SStubConnClosed(c *Conn) (code uint64, msg string, ok bool) {
	ce := c.closeErr.Load()
	if ce == nil {
		return 0, "", false
	}
	var ae *qerr.ApplicationError
	if errors.As(ce.err, &ae) {
		return uint64(ae.ErrorCode), ae.ErrorMessage, true
	}
	return ^uint64(0), ce.err.Error(), true
}
