//go:build verif

package quic

// Verification harness (unit C09): exported wrappers around the unexported pieces of the
// uQUIC Initial framing code. Add-only: nothing here changes the behaviour of the package.

import (
	"context"
	"errors"
	"io"
	"net"
	"strings"
	"time"

	tls "github.com/refraction-networking/utls"

	"github.com/refraction-networking/uquic/internal/protocol"
)

// VerifUFramesResolve = QUICCryptoRange{off,length}.resolve(n).
func VerifUFramesResolve(off, length, n int) (start, end int, err error) {
	return QUICCryptoRange{Offset: off, Length: length}.resolve(n)
}

// VerifUFramesSplitRange = splitRange; every returned frame is a QUICFrameCrypto, reported as (Offset, Length).
func VerifUFramesSplitRange(start, end int, minN, maxN uint64) ([][2]int, error) {
	fs, err := splitRange(start, end, minN, maxN)
	if err != nil {
		return nil, err
	}
	out := make([][2]int, 0, len(fs))
	for _, f := range fs {
		o, l, ok := f.CryptoFrameInfo()
		if !ok {
			return nil, errors.New("verif: splitRange returned a non-CRYPTO frame")
		}
		out = append(out, [2]int{o, l})
	}
	return out, nil
}

// VerifUFramesBuildAbsolute = QUICFrames.buildAbsolute.
func VerifUFramesBuildAbsolute(qfs QUICFrames, full []byte) ([]byte, error) {
	return qfs.buildAbsolute(full)
}

// VerifUFramesBuild = QUICFrames.build (the shared implementation of Build and BuildForDatagram).
func VerifUFramesBuild(qfs QUICFrames, data []byte, base uint64) ([]byte, error) {
	return qfs.build(data, base)
}

// VerifUFramesFlightDatagramBuild = QUICRandomFlightDatagram.build.
func VerifUFramesFlightDatagramBuild(d *QUICRandomFlightDatagram, full []byte) ([]byte, error) {
	return d.build(full)
}

// VerifUFramesValidateFlight = validateInitialFlight with budgets given as MaxFrameBytes.
func VerifUFramesValidateFlight(payloads [][]byte, maxFrameBytes []int, cryptoLen int) error {
	budgets := make([]InitialDatagramBudget, len(maxFrameBytes))
	for i, b := range maxFrameBytes {
		budgets[i] = InitialDatagramBudget{MaxFrameBytes: b}
	}
	return validateInitialFlight(payloads, budgets, cryptoLen)
}

// VerifUFramesRand = cryptoSafeRandUint64.
func VerifUFramesRand(min, max uint64) (uint64, error) { return cryptoSafeRandUint64(min, max) }

// VerifUFramesFindSNIAndECH = findSNIAndECH; class 0 = ok, 1 = io.ErrUnexpectedEOF, 2 = any other error.
func VerifUFramesFindSNIAndECH(data []byte) (sniPos, sniLen, echPos, class int) {
	sniPos, sniLen, echPos, err := findSNIAndECH(data)
	switch {
	case err == nil:
		return sniPos, sniLen, echPos, 0
	case errors.Is(err, io.ErrUnexpectedEOF):
		return sniPos, sniLen, echPos, 1
	default:
		return sniPos, sniLen, echPos, 2
	}
}

// VerifUFramesStream wraps an initialCryptoStream (send side only).
type VerifUFramesStream struct{ s *initialCryptoStream }

// VerifUFramesNewStream: scramble = true gives the client stream with anti-DPI scrambling
// on, false the stream after DisableScrambling (the default splitter).
func VerifUFramesNewStream(scramble bool) *VerifUFramesStream {
	s := newInitialCryptoStream(true)
	s.scramble = true // independent of the QUIC_GO_DISABLE_CLIENTHELLO_SCRAMBLING environment variable
	if !scramble {
		s.DisableScrambling()
	}
	return &VerifUFramesStream{s: s}
}

// Write returns the error class: 0 = nil, 2 = error.
func (v *VerifUFramesStream) Write(p []byte) int {
	n, err := v.s.Write(p)
	if err != nil {
		return 2
	}
	if n != len(p) {
		return 3
	}
	return 0
}

func (v *VerifUFramesStream) HasData() bool { return v.s.HasData() }

// Pop = PopCryptoFrame(maxLen): ok=false when it returned nil. The data is copied.
func (v *VerifUFramesStream) Pop(maxLen int64) (off int64, data []byte, ok bool) {
	f := v.s.PopCryptoFrame(protocol.ByteCount(maxLen))
	if f == nil {
		return 0, nil, false
	}
	return int64(f.Offset), append([]byte{}, f.Data...), true
}

// PopFrameLen = Length() of the frame PopCryptoFrame(maxLen) returns (for the size monitor).
func (v *VerifUFramesStream) PopAll() []byte { return v.s.PopAllCryptoData() }

// State: the fields the scrambler model carries.
func (v *VerifUFramesStream) State() (scramble bool, writeOffset, end int64, cuts [4]int64, bufLen int) {
	s := v.s
	return s.scramble, int64(s.writeOffset), int64(s.end),
		[4]int64{int64(s.cuts[0].start), int64(s.cuts[0].end), int64(s.cuts[1].start), int64(s.cuts[1].end)}, len(s.writeBuf)
}

// VerifUFramesConsts: constants the models use.
func VerifUFramesConsts() [][2]any {
	return [][2]any{
		{"uframes_extTypeSNI", int64(extTypeSNI)},
		{"uframes_extTypeECH", int64(extTypeECH)},
		{"uframes_InvalidByteCount", int64(protocol.InvalidByteCount)},
	}
}

// VerifUFramesDatagramIdx / VerifUFramesPlannedLeft: packer fields the uwire unit logs with
// every packet (the datagram index MarshalInitialPacketPayload will use, the planned flight
// payloads not yet sent).
func (r *VerifRetx) VerifUFramesDatagramIdx() int { return r.p.initialDatagramIdx }
func (r *VerifRetx) VerifUFramesPlannedLeft() int { return len(r.p.flightPayloads) }

// VerifUFramesDialRejects dials the spec through the real UTransport.Dial (loopback socket,
// already-cancelled context, so a dial that gets past validation ends at once) and reports
// whether the dial refused the spec as invalid before creating a connection.
func VerifUFramesDialRejects(spec *QUICSpec) (rejected bool, msg string) {
	pc, err := net.ListenUDP("udp", &net.UDPAddr{IP: net.IPv4(127, 0, 0, 1)})
	if err != nil {
		return false, "verif: no loopback socket: " + err.Error()
	}
	tr := &UTransport{Transport: &Transport{Conn: pc}, QUICSpec: spec}
	ctx, cancel := context.WithCancel(context.Background())
	cancel()
	done := make(chan error, 1)
	go func() {
		defer func() {
			if p := recover(); p != nil { // only past the validation (this spec has no ClientHelloSpec)
				done <- errors.New("dial got past validation")
			}
		}()
		_, err := tr.Dial(ctx, &net.UDPAddr{IP: net.IPv4(127, 0, 0, 1), Port: 4433}, &tls.Config{InsecureSkipVerify: true, ServerName: "verif.invalid", NextProtos: []string{"h3"}}, &Config{})
		done <- err
	}()
	select {
	case err = <-done:
		go func() { _ = tr.Close(); _ = pc.Close() }()
		if err == nil {
			return false, "dial succeeded"
		}
		return strings.Contains(err.Error(), "invalid QUICSpec"), err.Error()
	case <-time.After(500 * time.Millisecond):
		// the dial got past validation and is running a connection: it was not refused
		return false, "dial went on to create a connection"
	}
}

// VerifUFramesFlightBudgets: the budgets planInitialFlight will hand to BuildFlight and to
// validateInitialFlight (MaxFrameBytes per datagram), computed by the real flightBudgets.
func (r *VerifRetx) VerifUFramesFlightBudgets() []int {
	sealer, err := r.keys.GetInitialSealer()
	if err != nil {
		return nil
	}
	bs := r.p.flightBudgets(len(r.hello), sealer, r.max, r.v)
	out := make([]int, len(bs))
	for i, b := range bs {
		out[i] = b.MaxFrameBytes
	}
	return out
}
