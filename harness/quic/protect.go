//go:build verif

package quic

import (
	"errors"
	"math/rand/v2"
	"strings"

	"github.com/refraction-networking/uquic/internal/ackhandler"
	"github.com/refraction-networking/uquic/internal/utils"

	"github.com/refraction-networking/uquic/internal/handshake"
	"github.com/refraction-networking/uquic/internal/monotime"
	"github.com/refraction-networking/uquic/internal/protocol"
	"github.com/refraction-networking/uquic/internal/qerr"
	"github.com/refraction-networking/uquic/internal/wire"
)

// C05 `protect` unit: calls the real packetPacker.encryptPacket and the real
// packetUnpacker.UnpackLongHeader / UnpackShortHeader with logging wrappers around the
// sealer / opener, so that everything that crosses the AEAD / header-protection interface
// is known to the harness (add-only).

// VerifProtLog records what crossed the sealer / opener interface during one call.
type VerifProtLog struct {
	SealCalls   int
	SealPN      int64
	SealAD      []byte
	SealPT      []byte
	SealCT      []byte
	HPCalls     int
	HPSample    []byte
	HPHdrLen    int
	DecodeCalls int
	OpenCalls   int
	OpenPN      int64
	OpenKP      int // 0 / 1; long header: 0
	OpenAD      []byte
	OpenCT      []byte
	OpenOK      bool
	OpenPT      []byte
}

func verifProtCopy(b []byte) []byte { return append([]byte{}, b...) }

type verifProtSealer struct {
	s   handshake.LongHeaderSealer
	log *VerifProtLog
}

func (v *verifProtSealer) Seal(dst, src []byte, pn protocol.PacketNumber, ad []byte) []byte {
	v.log.SealCalls++
	v.log.SealPN, v.log.SealAD, v.log.SealPT = int64(pn), verifProtCopy(ad), verifProtCopy(src)
	out := v.s.Seal(dst, src, pn, ad)
	v.log.SealCT = verifProtCopy(out)
	return out
}

func (v *verifProtSealer) EncryptHeader(sample []byte, firstByte *byte, pnBytes []byte) {
	v.log.HPCalls++
	v.log.HPSample, v.log.HPHdrLen = verifProtCopy(sample), len(pnBytes)
	v.s.EncryptHeader(sample, firstByte, pnBytes)
}
func (v *verifProtSealer) Overhead() int { return v.s.Overhead() }

// VerifProtEncrypt runs packetPacker.encryptPacket on raw = hdr || payload.
func VerifProtEncrypt(s handshake.LongHeaderSealer, hdr, payload []byte, pn protocol.PacketNumber, pnLen int, log *VerifProtLog) []byte {
	raw := make([]byte, 0, len(hdr)+len(payload)+s.Overhead()+64)
	raw = append(raw, hdr...)
	raw = append(raw, payload...)
	p := &packetPacker{}
	out := p.encryptPacket(raw, &verifProtSealer{s: s, log: log}, pn, protocol.ByteCount(len(hdr)), protocol.ByteCount(pnLen))
	return verifProtCopy(out)
}

type verifProtLongOpener struct {
	o   handshake.LongHeaderOpener
	log *VerifProtLog
}

func (v *verifProtLongOpener) DecryptHeader(sample []byte, firstByte *byte, pnBytes []byte) {
	v.log.HPCalls++
	v.log.HPSample, v.log.HPHdrLen = verifProtCopy(sample), len(pnBytes)
	v.o.DecryptHeader(sample, firstByte, pnBytes)
}
func (v *verifProtLongOpener) DecodePacketNumber(w protocol.PacketNumber, l protocol.PacketNumberLen) protocol.PacketNumber {
	v.log.DecodeCalls++
	return v.o.DecodePacketNumber(w, l)
}
func (v *verifProtLongOpener) Open(dst, src []byte, pn protocol.PacketNumber, ad []byte) ([]byte, error) {
	v.log.OpenCalls++
	v.log.OpenPN, v.log.OpenKP, v.log.OpenAD, v.log.OpenCT = int64(pn), 0, verifProtCopy(ad), verifProtCopy(src)
	out, err := v.o.Open(dst, src, pn, ad)
	v.log.OpenOK = err == nil
	if err == nil {
		v.log.OpenPT = verifProtCopy(out)
	}
	return out, err
}

type verifProtShortOpener struct {
	o   handshake.ShortHeaderOpener
	log *VerifProtLog
}

func (v *verifProtShortOpener) DecryptHeader(sample []byte, firstByte *byte, pnBytes []byte) {
	v.log.HPCalls++
	v.log.HPSample, v.log.HPHdrLen = verifProtCopy(sample), len(pnBytes)
	v.o.DecryptHeader(sample, firstByte, pnBytes)
}
func (v *verifProtShortOpener) DecodePacketNumber(w protocol.PacketNumber, l protocol.PacketNumberLen) protocol.PacketNumber {
	v.log.DecodeCalls++
	return v.o.DecodePacketNumber(w, l)
}
func (v *verifProtShortOpener) Open(dst, src []byte, t monotime.Time, pn protocol.PacketNumber, kp protocol.KeyPhaseBit, ad []byte) ([]byte, error) {
	v.log.OpenCalls++
	k := 0
	if kp == protocol.KeyPhaseOne {
		k = 1
	}
	v.log.OpenPN, v.log.OpenKP, v.log.OpenAD, v.log.OpenCT = int64(pn), k, verifProtCopy(ad), verifProtCopy(src)
	out, err := v.o.Open(dst, src, t, pn, kp, ad)
	v.log.OpenOK = err == nil
	if err == nil {
		v.log.OpenPT = verifProtCopy(out)
	}
	return out, err
}

// verifProtCS is a CryptoSetup that only hands out the two openers.
type verifProtCS struct {
	handshake.CryptoSetup
	long  handshake.LongHeaderOpener
	short handshake.ShortHeaderOpener
}

func (c *verifProtCS) GetInitialOpener() (handshake.LongHeaderOpener, error)   { return c.long, nil }
func (c *verifProtCS) GetHandshakeOpener() (handshake.LongHeaderOpener, error) { return c.long, nil }
func (c *verifProtCS) Get0RTTOpener() (handshake.LongHeaderOpener, error)      { return c.long, nil }
func (c *verifProtCS) Get1RTTOpener() (handshake.ShortHeaderOpener, error)     { return c.short, nil }

// Error classes of the unpacker.
const (
	VerifProtOK            = 0
	VerifProtTooSmall      = 1
	VerifProtDecryptFailed = 2
	VerifProtReservedBits  = 3
	VerifProtEmpty         = 4
	VerifProtNotShort      = 5
	VerifProtNotQUIC       = 6
	VerifProtOuterHeader   = 7 // wire.ParsePacket failed (long header, before any unprotection)
	VerifProtOther         = 9
)

func verifProtErrClass(err error) int {
	if err == nil {
		return VerifProtOK
	}
	if err == handshake.ErrDecryptionFailed || err == handshake.ErrKeysDropped {
		return VerifProtDecryptFailed // any error of the opener
	}
	var ote *qerr.TransportError
	if errors.As(err, &ote) && (ote.ErrorCode == qerr.KeyUpdateError || ote.ErrorCode == qerr.AEADLimitReached) {
		return VerifProtDecryptFailed
	}
	if err == wire.ErrInvalidReservedBits {
		return VerifProtReservedBits
	}
	var hpe *headerParseError
	if errors.As(err, &hpe) {
		switch {
		case strings.Contains(hpe.Error(), "packet too small"):
			return VerifProtTooSmall
		case strings.Contains(hpe.Error(), "not a short header"):
			return VerifProtNotShort
		case strings.Contains(hpe.Error(), "not a QUIC packet"):
			return VerifProtNotQUIC
		}
		return VerifProtOther
	}
	var te *qerr.TransportError
	if errors.As(err, &te) && te.ErrorCode == qerr.ProtocolViolation && te.ErrorMessage == "empty packet" {
		return VerifProtEmpty
	}
	return VerifProtOther
}

// VerifProtUnpacked is the result of a successful unpack.
type VerifProtUnpacked struct {
	FirstByte byte // unprotected first byte (long header only; 0 for short)
	PN        int64
	PNLen     int
	KP        int
	Payload   []byte
	Hdr       *wire.ExtendedHeader
}

// VerifProtUnpackLong: wire.ParsePacket + packetUnpacker.UnpackLongHeader on a copy of data.
// hdrLen is Header.ParsedLen() (offset of the packet number), pktLen the packet's length
// according to its Length field.
func VerifProtUnpackLong(o handshake.LongHeaderOpener, data []byte, log *VerifProtLog) (res VerifProtUnpacked, hdrLen, pktLen, class int) {
	data = verifProtCopy(data)
	hdr, pkt, _, err := wire.ParsePacket(data)
	if err != nil {
		return res, 0, 0, VerifProtOuterHeader
	}
	hdrLen, pktLen = int(hdr.ParsedLen()), len(pkt)
	u := newPacketUnpacker(&verifProtCS{long: &verifProtLongOpener{o: o, log: log}}, 0)
	up, err := u.UnpackLongHeader(hdr, pkt)
	if err != nil {
		return res, hdrLen, pktLen, verifProtErrClass(err)
	}
	return VerifProtUnpacked{FirstByte: pkt[0], PN: int64(up.hdr.PacketNumber), PNLen: int(up.hdr.PacketNumberLen), Payload: verifProtCopy(up.data), Hdr: up.hdr}, hdrLen, pktLen, VerifProtOK
}

// VerifProtUnpackShort: packetUnpacker.UnpackShortHeader on a copy of data.
func VerifProtUnpackShort(o handshake.ShortHeaderOpener, connIDLen int, rcvTime int64, data []byte, log *VerifProtLog) (VerifProtUnpacked, int) {
	data = verifProtCopy(data)
	u := newPacketUnpacker(&verifProtCS{short: &verifProtShortOpener{o: o, log: log}}, connIDLen)
	pn, pnLen, kp, dec, err := u.UnpackShortHeader(monotime.Time(rcvTime), data)
	if err != nil {
		return VerifProtUnpacked{}, verifProtErrClass(err)
	}
	k := 0
	if kp == protocol.KeyPhaseOne {
		k = 1
	}
	return VerifProtUnpacked{FirstByte: data[0], PN: int64(pn), PNLen: int(pnLen), KP: k, Payload: verifProtCopy(dec)}, VerifProtOK
}

// ---- the packer's call sites: appendShortHeaderPacket / getLongHeader + appendLongHeaderPacket ----

// VerifProtPacked is what the real packer produced.
type VerifProtPacked struct {
	PN     int64
	PNLen  int
	Packet []byte
	Ack    []byte // serialized ACK frame (nil if none)
	Frames []byte // the other frames, serialized
	Log    VerifProtLog
}

// VerifProtNewSPH: a real sentPacketHandler whose packet number spaces start at initialPN.
func VerifProtNewSPH(initialPN int64, pers protocol.Perspective) ackhandler.SentPacketHandler {
	return ackhandler.NewSentPacketHandler(protocol.PacketNumber(initialPN), 1200, utils.NewRTTStats(), &utils.ConnectionStats{},
		true, false, func(protocol.PacketNumber) {}, pers, nil, utils.DefaultLogger)
}

func verifProtPayload(ack *wire.AckFrame, nPing int, v protocol.Version) (payload, []byte, []byte) {
	var pl payload
	var ackBytes, frameBytes []byte
	if ack != nil {
		pl.ack = ack
		pl.length += ack.Length(v)
		ackBytes, _ = ack.Append(nil, v)
	}
	for i := 0; i < nPing; i++ {
		f := &wire.PingFrame{}
		pl.frames = append(pl.frames, ackhandler.Frame{Frame: f})
		pl.length += f.Length(v)
		frameBytes, _ = f.Append(frameBytes, v)
	}
	return pl, ackBytes, frameBytes
}

// VerifProtPackShort: packet number and length from the real sentPacketHandler, packet built by
// the real packetPacker.appendShortHeaderPacket.
func VerifProtPackShort(sph ackhandler.SentPacketHandler, s handshake.LongHeaderSealer, connID protocol.ConnectionID, kp protocol.KeyPhaseBit,
	ack *wire.AckFrame, nPing int, padding int, v protocol.Version) (res VerifProtPacked, err error) {
	p := &packetPacker{pnManager: sph, rand: *rand.New(rand.NewPCG(1, 2))}
	pn, pnLen := sph.PeekPacketNumber(protocol.Encryption1RTT)
	pl, ackBytes, frameBytes := verifProtPayload(ack, nPing, v)
	buf := getPacketBuffer()
	defer buf.Release()
	_, err = p.appendShortHeaderPacket(buf, connID, pn, pnLen, kp, pl, protocol.ByteCount(padding), 1452, &verifProtSealer{s: s, log: &res.Log}, false, v)
	if err != nil {
		return res, err
	}
	res.PN, res.PNLen, res.Packet, res.Ack, res.Frames = int64(pn), int(pnLen), verifProtCopy(buf.Data), ackBytes, frameBytes
	return res, nil
}

// VerifProtPackLong: header from the real packetPacker.getLongHeader (packet number and length
// from the real sentPacketHandler), packet built by the real appendLongHeaderPacket.
func VerifProtPackLong(sph ackhandler.SentPacketHandler, s handshake.LongHeaderSealer, encLevel protocol.EncryptionLevel,
	dest, src protocol.ConnectionID, token []byte, ack *wire.AckFrame, nPing int, padding int, v protocol.Version) (res VerifProtPacked, err error) {
	p := &packetPacker{pnManager: sph, rand: *rand.New(rand.NewPCG(1, 2)), srcConnID: src, getDestConnID: func() protocol.ConnectionID { return dest }, token: token}
	hdr := p.getLongHeader(encLevel, v)
	pl, ackBytes, frameBytes := verifProtPayload(ack, nPing, v)
	buf := getPacketBuffer()
	defer buf.Release()
	_, err = p.appendLongHeaderPacket(buf, hdr, pl, protocol.ByteCount(padding), encLevel, &verifProtSealer{s: s, log: &res.Log}, v)
	if err != nil {
		return res, err
	}
	res.PN, res.PNLen, res.Packet, res.Ack, res.Frames = int64(hdr.PacketNumber), int(hdr.PacketNumberLen), verifProtCopy(buf.Data), ackBytes, frameBytes
	return res, nil
}
