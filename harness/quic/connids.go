//go:build verif

package quic

// Verification harness for property C16 (connection IDs). Add-only: constructs the real
// connIDManager / connIDGenerator with recording callbacks and reads their unexported
// fields for observation. Nothing here changes behaviour of the package.

import (
	"errors"
	"sort"
	"time"

	"github.com/refraction-networking/uquic/internal/monotime"
	"github.com/refraction-networking/uquic/internal/protocol"
	"github.com/refraction-networking/uquic/internal/qerr"
	"github.com/refraction-networking/uquic/internal/utils"
	"github.com/refraction-networking/uquic/internal/wire"
)

// VerifConnIDConsts feeds the constants translator (coq/Gen/Params.v).
func VerifConnIDConsts() [][2]any {
	return [][2]any{
		{"MaxActiveConnectionIDs", int64(protocol.MaxActiveConnectionIDs)},
		{"MaxIssuedConnectionIDs", int64(protocol.MaxIssuedConnectionIDs)},
		{"PacketsPerConnectionID", int64(protocol.PacketsPerConnectionID)},
	}
}

// Error classes shared by manager and generator wrappers.
const (
	VerifOK       = 0 // nil
	VerifProtoErr = 1 // TransportError PROTOCOL_VIOLATION
	VerifLimitErr = 2 // TransportError CONNECTION_ID_LIMIT_ERROR
	VerifOtherErr = 3 // any other error (conflicting contents, generator failure)
	VerifPanic    = 4 // the call panicked (recovered by the wrapper)
)

func verifErrClass(err error) int {
	if err == nil {
		return VerifOK
	}
	var te *qerr.TransportError
	if errors.As(err, &te) {
		switch te.ErrorCode {
		case qerr.ProtocolViolation:
			return VerifProtoErr
		case qerr.ConnectionIDLimitError:
			return VerifLimitErr
		}
	}
	return VerifOtherErr
}

// ---------------------------------------------------------------------------------
// connIDManager
// ---------------------------------------------------------------------------------

// VerifMgrEvent is one callback invocation made by the manager.
// Kind: 0 = RETIRE_CONNECTION_ID queued (Seq), 1 = addStatelessResetToken (Tok),
// 2 = removeStatelessResetToken (Tok), 9 = some other frame queued.
type VerifMgrEvent struct {
	Kind int
	Seq  uint64
	Tok  [16]byte
}

type VerifNCID struct {
	Seq uint64
	CID []byte
	Tok [16]byte
}

type VerifMgrState struct {
	Queue             []VerifNCID
	ProbingPaths      []int64 // sorted
	Probing           []VerifNCID
	HighestProbing    uint64
	HandshakeComplete bool
	ActiveSeq         uint64
	HighestRetired    uint64
	ActiveCID         []byte
	HasActiveTok      bool
	ActiveTok         [16]byte
	Since, PPC        uint32
	Closed            bool
	AdvertisedLimit   uint64
}

type VerifMgr struct {
	m      *connIDManager
	Events []VerifMgrEvent
}

func VerifNewMgr(initialDest []byte) *VerifMgr {
	v := &VerifMgr{}
	v.m = newConnIDManager(
		protocol.ParseConnectionID(initialDest),
		func(t protocol.StatelessResetToken) { v.Events = append(v.Events, VerifMgrEvent{Kind: 1, Tok: t}) },
		func(t protocol.StatelessResetToken) { v.Events = append(v.Events, VerifMgrEvent{Kind: 2, Tok: t}) },
		func(f wire.Frame) {
			if r, ok := f.(*wire.RetireConnectionIDFrame); ok {
				v.Events = append(v.Events, VerifMgrEvent{Kind: 0, Seq: r.SequenceNumber})
			} else {
				v.Events = append(v.Events, VerifMgrEvent{Kind: 9})
			}
		},
	)
	return v
}

// TakeEvents returns and clears the callbacks recorded since the last call.
func (v *VerifMgr) TakeEvents() []VerifMgrEvent {
	e := v.Events
	v.Events = nil
	return e
}

func (v *VerifMgr) guard(cls *int) {
	if r := recover(); r != nil {
		*cls = VerifPanic
	}
}

func (v *VerifMgr) Add(seq, rpt uint64, cid []byte, tok [16]byte) (cls int) {
	defer v.guard(&cls)
	return verifErrClass(v.m.Add(&wire.NewConnectionIDFrame{
		SequenceNumber: seq, RetirePriorTo: rpt,
		ConnectionID: protocol.ParseConnectionID(cid), StatelessResetToken: tok,
	}))
}

func (v *VerifMgr) AddFromPreferredAddress(cid []byte, tok [16]byte) (cls int) {
	defer v.guard(&cls)
	return verifErrClass(v.m.AddFromPreferredAddress(protocol.ParseConnectionID(cid), tok))
}

func (v *VerifMgr) Get() (cid []byte, cls int) {
	defer v.guard(&cls)
	return v.m.Get().Bytes(), VerifOK
}

func (v *VerifMgr) SentPackets(k int) {
	for i := 0; i < k; i++ {
		v.m.SentPacket()
	}
}

func (v *VerifMgr) SetHandshakeComplete() { v.m.SetHandshakeComplete() }

func (v *VerifMgr) Close() (cls int) {
	defer v.guard(&cls)
	v.m.Close()
	return VerifOK
}

func (v *VerifMgr) ChangeInitialConnID(cid []byte) (cls int) {
	defer v.guard(&cls)
	v.m.ChangeInitialConnID(protocol.ParseConnectionID(cid))
	return VerifOK
}

func (v *VerifMgr) SetStatelessResetToken(tok [16]byte) (cls int) {
	defer v.guard(&cls)
	v.m.SetStatelessResetToken(tok)
	return VerifOK
}

func (v *VerifMgr) GetConnIDForPath(id int64) (cid []byte, ok bool, cls int) {
	defer v.guard(&cls)
	c, ok := v.m.GetConnIDForPath(pathID(id))
	return c.Bytes(), ok, VerifOK
}

func (v *VerifMgr) RetireConnIDForPath(id int64) (cls int) {
	defer v.guard(&cls)
	v.m.RetireConnIDForPath(pathID(id))
	return VerifOK
}

func (v *VerifMgr) IsActiveStatelessResetToken(tok [16]byte) bool {
	return v.m.IsActiveStatelessResetToken(tok)
}

// SetConnectionIDLimit: u_conn_id_manager.go, the limit a spec-driven client advertised.
func (v *VerifMgr) SetConnectionIDLimit(n uint64) { v.m.SetConnectionIDLimit(n) }

func (v *VerifMgr) State() VerifMgrState { return connidsVerifMgrStateOf(v.m) }

func connidsVerifMgrStateOf(h *connIDManager) VerifMgrState {
	s := VerifMgrState{
		HighestProbing:    h.highestProbingID,
		HandshakeComplete: h.handshakeComplete,
		ActiveSeq:         h.activeSequenceNumber,
		HighestRetired:    h.highestRetired,
		ActiveCID:         append([]byte{}, h.activeConnectionID.Bytes()...),
		Since:             h.packetsSinceLastChange,
		PPC:               h.packetsPerConnectionID,
		Closed:            h.closed,
		AdvertisedLimit:   h.advertisedLimit,
	}
	if h.activeStatelessResetToken != nil {
		s.HasActiveTok = true
		s.ActiveTok = *h.activeStatelessResetToken
	}
	for _, e := range h.queue {
		s.Queue = append(s.Queue, VerifNCID{Seq: e.SequenceNumber, CID: append([]byte{}, e.ConnectionID.Bytes()...), Tok: e.StatelessResetToken})
	}
	for id := range h.pathProbing {
		s.ProbingPaths = append(s.ProbingPaths, int64(id))
	}
	sort.Slice(s.ProbingPaths, func(i, j int) bool { return s.ProbingPaths[i] < s.ProbingPaths[j] })
	for _, id := range s.ProbingPaths {
		e := h.pathProbing[pathID(id)]
		s.Probing = append(s.Probing, VerifNCID{Seq: e.SequenceNumber, CID: append([]byte{}, e.ConnectionID.Bytes()...), Tok: e.StatelessResetToken})
	}
	return s
}

// ---------------------------------------------------------------------------------
// connIDGenerator
// ---------------------------------------------------------------------------------

// VerifGenEvent is one callback invocation made by the generator.
// Kind: 0 = AddConnectionID(CID), 1 = RemoveConnectionID(CID),
// 2 = NEW_CONNECTION_ID queued (Seq, CID, Tok, RetirePriorTo in Aux),
// 3 = ReplaceWithClosed(IDs, Local = connClose != nil, Aux = expiry ns), 9 = other frame.
type VerifGenEvent struct {
	Kind  int
	Seq   uint64
	CID   []byte
	Tok   [16]byte
	IDs   [][]byte
	Local bool
	Aux   int64
}

// scripted ConnectionIDGenerator: hands out the IDs the harness decided on (nil = error).
type verifCIDGen struct {
	l    int
	next [][]byte
	used int
}

var errVerifGen = errors.New("verif: scripted generator failure")

func (g *verifCIDGen) GenerateConnectionID() (protocol.ConnectionID, error) {
	if g.used >= len(g.next) {
		panic("verif: scripted connection ID generator exhausted")
	}
	b := g.next[g.used]
	g.used++
	if b == nil {
		return protocol.ConnectionID{}, errVerifGen
	}
	return protocol.ParseConnectionID(b), nil
}
func (g *verifCIDGen) ConnectionIDLen() int { return g.l }

type VerifGenState struct {
	HighestSeq    uint64
	ActiveSeqs    []uint64 // sorted
	ActiveCIDs    [][]byte // parallel to ActiveSeqs
	RetireTimes   []int64  // in slice order
	RetireCIDs    [][]byte
	HasInitial    bool
	InitialClient []byte
	// NextRetireTime() of the generator, if the tree under test has that accessor (it came with the
	// repair of the lazily removed retired IDs); HasNextRetire false otherwise
	HasNextRetire bool
	NextRetire    int64
}

type VerifGen struct {
	g      *connIDGenerator
	cg     *verifCIDGen
	sr     *statelessResetter
	Events []VerifGenEvent
	// base: the harness' times are offsets from a point one hour in the future of the real
	// monotonic clock, so that "not yet expired" also holds with respect to monotime.Now()
	// (a generator that consults the real clock must not see the test's expiries as past).
	base int64
	// rt: if set, the callbacks are also forwarded to a real packetHandlerMap (connection 1)
	rt *VerifRouting
	// a second runner (AddConnRunner: the transport of a new path) with its own recording callbacks
	runner2 *packetHandlerMap
	Events2 []VerifGenEvent
}

// AddRunner calls AddConnRunner with the (one) second runner; calling it again must change nothing.
func (v *VerifGen) AddRunner() (cls int) {
	defer v.guard(&cls)
	if v.runner2 == nil {
		v.runner2 = &packetHandlerMap{}
	}
	v.g.AddConnRunner(v.runner2, connRunnerCallbacks{
		AddConnectionID: func(c protocol.ConnectionID) {
			v.Events2 = append(v.Events2, VerifGenEvent{Kind: 0, CID: append([]byte{}, c.Bytes()...)})
		},
		RemoveConnectionID: func(c protocol.ConnectionID) {
			v.Events2 = append(v.Events2, VerifGenEvent{Kind: 1, CID: append([]byte{}, c.Bytes()...)})
		},
		ReplaceWithClosed: func(ids []protocol.ConnectionID, b []byte, d time.Duration) {
			e := VerifGenEvent{Kind: 3, Local: b != nil, Aux: int64(d)}
			for _, c := range ids {
				e.IDs = append(e.IDs, append([]byte{}, c.Bytes()...))
			}
			v.Events2 = append(v.Events2, e)
		},
	})
	return VerifOK
}

func (v *VerifGen) TakeEvents2() []VerifGenEvent {
	e := v.Events2
	v.Events2 = nil
	return e
}

// VerifNewGenRouted: like VerifNewGen, and the generator drives a real packetHandlerMap in which
// the transport registered the connection's first IDs (server: AddWithConnID(client's
// destination ID, source ID); client: Add(source ID)).
func VerifNewGenRouted(initial []byte, initialClientDest []byte, hasClientDest bool, connIDLen int) (*VerifGen, *VerifRouting) {
	rt := VerifNewRouting()
	if hasClientDest {
		rt.AddWithConnID(initialClientDest, initial, 1)
	} else {
		rt.Add(initial, 1)
	}
	v := verifNewGen(initial, initialClientDest, hasClientDest, connIDLen, rt)
	return v, rt
}

func VerifNewGen(initial []byte, initialClientDest []byte, hasClientDest bool, connIDLen int) *VerifGen {
	return verifNewGen(initial, initialClientDest, hasClientDest, connIDLen, nil)
}

func verifNewGen(initial []byte, initialClientDest []byte, hasClientDest bool, connIDLen int, rt *VerifRouting) *VerifGen {
	v := &VerifGen{cg: &verifCIDGen{l: connIDLen}, rt: rt}
	v.base = int64(monotime.Now()) + int64(time.Hour)
	v.sr = newStatelessResetter(&StatelessResetKey{1, 2, 3, 4})
	var icd *protocol.ConnectionID
	if hasClientDest {
		c := protocol.ParseConnectionID(initialClientDest)
		icd = &c
	}
	v.g = newConnIDGenerator(
		&packetHandlerMap{},
		protocol.ParseConnectionID(initial),
		icd,
		v.sr,
		connRunnerCallbacks{
			AddConnectionID: func(c protocol.ConnectionID) {
				v.Events = append(v.Events, VerifGenEvent{Kind: 0, CID: append([]byte{}, c.Bytes()...)})
				if v.rt != nil {
					v.rt.m.Add(c, v.rt.conn(1))
				}
			},
			RemoveConnectionID: func(c protocol.ConnectionID) {
				v.Events = append(v.Events, VerifGenEvent{Kind: 1, CID: append([]byte{}, c.Bytes()...)})
				if v.rt != nil {
					v.rt.m.Remove(c)
				}
			},
			ReplaceWithClosed: func(ids []protocol.ConnectionID, b []byte, d time.Duration) {
				e := VerifGenEvent{Kind: 3, Local: b != nil, Aux: int64(d)}
				for _, c := range ids {
					e.IDs = append(e.IDs, append([]byte{}, c.Bytes()...))
				}
				v.Events = append(v.Events, e)
				if v.rt != nil {
					v.rt.m.ReplaceWithClosed(ids, b, d)
				}
			},
		},
		func(f wire.Frame) {
			if n, ok := f.(*wire.NewConnectionIDFrame); ok {
				v.Events = append(v.Events, VerifGenEvent{Kind: 2, Seq: n.SequenceNumber, CID: append([]byte{}, n.ConnectionID.Bytes()...),
					Tok: n.StatelessResetToken, Aux: int64(n.RetirePriorTo)})
			} else {
				v.Events = append(v.Events, VerifGenEvent{Kind: 9})
			}
		},
		v.cg,
	)
	return v
}

func (v *VerifGen) TakeEvents() []VerifGenEvent {
	e := v.Events
	v.Events = nil
	return e
}

// Script sets the connection IDs the scripted generator hands out next (nil entry = error).
func (v *VerifGen) Script(ids [][]byte) { v.cg.next, v.cg.used = ids, 0 }

// Consumed reports how many scripted IDs the last call drew.
func (v *VerifGen) Consumed() int { return v.cg.used }

// Token recomputes the stateless reset token of an ID with the generator's resetter.
func (v *VerifGen) Token(cid []byte) [16]byte {
	return v.sr.GetStatelessResetToken(protocol.ParseConnectionID(cid))
}

func (v *VerifGen) guard(cls *int) {
	if r := recover(); r != nil {
		*cls = VerifPanic
	}
}

func (v *VerifGen) SetMaxActiveConnIDs(limit uint64) (cls int) {
	defer v.guard(&cls)
	return verifErrClass(v.g.SetMaxActiveConnIDs(limit))
}

func (v *VerifGen) Retire(seq uint64, sentWith []byte, expiry int64) (cls int) {
	defer v.guard(&cls)
	return verifErrClass(v.g.Retire(seq, protocol.ParseConnectionID(sentWith), monotime.Time(v.base+expiry)))
}

func (v *VerifGen) SetHandshakeComplete(expiry int64) (cls int) {
	defer v.guard(&cls)
	v.g.SetHandshakeComplete(monotime.Time(v.base + expiry))
	return VerifOK
}

func (v *VerifGen) RemoveRetiredConnIDs(now int64) (cls int) {
	defer v.guard(&cls)
	v.g.RemoveRetiredConnIDs(monotime.Time(v.base + now))
	return VerifOK
}

func (v *VerifGen) RemoveAll() (cls int) {
	defer v.guard(&cls)
	v.g.RemoveAll()
	return VerifOK
}

func (v *VerifGen) ReplaceWithClosed(local bool, expiry int64) (cls int) {
	defer v.guard(&cls)
	var b []byte
	if local {
		b = []byte{0x1c, 0, 0, 0}
	}
	v.g.ReplaceWithClosed(b, time.Duration(expiry))
	return VerifOK
}

func (v *VerifGen) State() VerifGenState { return connidsVerifGenStateOf(v.g, v.base) }

func connidsVerifGenStateOf(g *connIDGenerator, base int64) VerifGenState {
	s := VerifGenState{HighestSeq: g.highestSeq}
	for seq := range g.activeSrcConnIDs {
		s.ActiveSeqs = append(s.ActiveSeqs, seq)
	}
	sort.Slice(s.ActiveSeqs, func(i, j int) bool { return s.ActiveSeqs[i] < s.ActiveSeqs[j] })
	for _, seq := range s.ActiveSeqs {
		s.ActiveCIDs = append(s.ActiveCIDs, append([]byte{}, g.activeSrcConnIDs[seq].Bytes()...))
	}
	for _, c := range g.connIDsToRetire {
		s.RetireTimes = append(s.RetireTimes, int64(c.t)-base)
		s.RetireCIDs = append(s.RetireCIDs, append([]byte{}, c.connID.Bytes()...))
	}
	if g.initialClientDestConnID != nil {
		s.HasInitial = true
		s.InitialClient = append([]byte{}, g.initialClientDestConnID.Bytes()...)
	}
	if a, ok := any(g).(interface{ NextRetireTime() monotime.Time }); ok {
		s.HasNextRetire = true
		if t := a.NextRetireTime(); t != 0 {
			s.NextRetire = int64(t) - base
		}
	}
	return s
}

var _ = utils.DefaultLogger

// ---------------------------------------------------------------------------------
// packetHandlerMap (transport.go) and the closed-connection stand-ins (closed_conn.go)
// ---------------------------------------------------------------------------------

// verifConn stands for a live connection registered with the transport.
type verifConn struct {
	id  int
	got int
}

func (c *verifConn) handlePacket(receivedPacket)                     { c.got++ }
func (c *verifConn) destroy(error)                                   {}
func (c *verifConn) closeWithTransportError(qerr.TransportErrorCode) {}

// VerifRouting drives the real packetHandlerMap of a Transport that owns no socket.
// Timers (time.AfterFunc in ReplaceWithClosed) run on the clock of the caller: the
// harness calls everything inside a testing/synctest bubble.
type VerifRouting struct {
	t      *Transport
	m      *packetHandlerMap
	conns  map[int]*verifConn
	locals map[*closedLocalConn]int
}

func VerifNewRouting() *VerifRouting {
	t := &Transport{}
	t.handlers = make(map[protocol.ConnectionID]packetHandler)
	t.resetTokens = make(map[protocol.StatelessResetToken]packetHandler)
	t.closeQueue = make(chan closePacket, 4)
	t.logger = utils.DefaultLogger
	return &VerifRouting{t: t, m: (*packetHandlerMap)(t), conns: map[int]*verifConn{}, locals: map[*closedLocalConn]int{}}
}

func (v *VerifRouting) conn(n int) *verifConn {
	c, ok := v.conns[n]
	if !ok {
		c = &verifConn{id: n}
		v.conns[n] = c
	}
	return c
}

func (v *VerifRouting) Add(cid []byte, n int) bool {
	return v.m.Add(protocol.ParseConnectionID(cid), v.conn(n))
}

func (v *VerifRouting) AddWithConnID(clientDest, newID []byte, n int) bool {
	return v.m.AddWithConnID(protocol.ParseConnectionID(clientDest), protocol.ParseConnectionID(newID), v.conn(n))
}

func (v *VerifRouting) Remove(cid []byte) { v.m.Remove(protocol.ParseConnectionID(cid)) }

func (v *VerifRouting) ReplaceWithClosed(ids [][]byte, local bool, expiry int64, closePacketLen int) {
	cs := make([]protocol.ConnectionID, len(ids))
	for i, b := range ids {
		cs[i] = protocol.ParseConnectionID(b)
	}
	var pkt []byte
	if local {
		pkt = make([]byte, closePacketLen) // non-nil even if empty
	}
	v.m.ReplaceWithClosed(cs, pkt, time.Duration(expiry))
	// number the local stand-ins in creation order (all IDs of one call share one)
	if local {
		idx := len(v.locals)
		for _, c := range cs {
			if h, ok := v.t.handlers[c].(*closedLocalConn); ok {
				if _, seen := v.locals[h]; !seen {
					v.locals[h] = idx
				}
			}
		}
		if len(cs) == 0 {
			v.locals[&closedLocalConn{}] = idx // keeps the numbering aligned with the calls
		}
	}
}

func (v *VerifRouting) AddResetToken(tok [16]byte, n int) { v.m.AddResetToken(tok, v.conn(n)) }
func (v *VerifRouting) RemoveResetToken(tok [16]byte)     { v.m.RemoveResetToken(tok) }

// kind: 0 = not routed, 1 = live connection (ref = its number), 2 = closedLocalConn
// (ref = creation index), 3 = closedRemoteConn, 9 = something else.
func (v *VerifRouting) classify(h packetHandler, ok bool) (kind, ref int) {
	if !ok {
		return 0, 0
	}
	switch x := h.(type) {
	case *verifConn:
		return 1, x.id
	case *closedLocalConn:
		return 2, v.locals[x]
	case *closedRemoteConn:
		return 3, 0
	}
	return 9, 0
}

func (v *VerifRouting) Lookup(cid []byte) (kind, ref int) {
	h, ok := v.m.Get(protocol.ParseConnectionID(cid))
	return v.classify(h, ok)
}

// Deliver hands one packet to whatever the map routes cid to, exactly as
// Transport.handlePacket does after the lookup, and reports how many CONNECTION_CLOSE
// retransmissions were queued by it.
func (v *VerifRouting) Deliver(cid []byte, size int) (kind, ref, sent int) {
	h, ok := v.m.Get(protocol.ParseConnectionID(cid))
	kind, ref = v.classify(h, ok)
	if ok {
		h.handlePacket(receivedPacket{data: make([]byte, size)})
	}
	for {
		select {
		case <-v.t.closeQueue:
			sent++
			continue
		default:
		}
		break
	}
	return
}

type VerifRoute struct {
	CID       []byte
	Kind, Ref int
}

func (v *VerifRouting) Snapshot() (routes []VerifRoute, toks [][16]byte, tokConn []int) {
	v.t.mutex.Lock()
	defer v.t.mutex.Unlock()
	for c, h := range v.t.handlers {
		k, r := v.classify(h, true)
		routes = append(routes, VerifRoute{CID: append([]byte{}, c.Bytes()...), Kind: k, Ref: r})
	}
	sort.Slice(routes, func(i, j int) bool { return string(routes[i].CID) < string(routes[j].CID) })
	for t := range v.t.resetTokens {
		toks = append(toks, t)
	}
	sort.Slice(toks, func(i, j int) bool { return string(toks[i][:]) < string(toks[j][:]) })
	for _, t := range toks {
		_, r := v.classify(v.t.resetTokens[t], true)
		tokConn = append(tokConn, r)
	}
	return
}

// ---------------------------------------------------------------------------------
// whole connections (unit simconnids): read-only views. Call them only while the
// connection's goroutines are parked (after synctest.Wait()).
// ---------------------------------------------------------------------------------

type ConnidsVerifView struct {
	Mgr               VerifMgrState
	Gen               VerifGenState // RetireTimes are raw monotime values
	Server            bool
	HasPeerParams     bool
	PeerLimit         uint64 // active_connection_id_limit the peer advertised, as parsed from the wire
	HandshakeComplete bool
	Closed            bool
	Now               int64 // monotime.Now()
}

// ConnidsVerifMonoNow is monotime.Now() (the clock of the generator's expiries).
func ConnidsVerifMonoNow() int64 { return int64(monotime.Now()) }

func ConnidsVerifViewOf(c *Conn) ConnidsVerifView {
	v := ConnidsVerifView{
		Mgr:               connidsVerifMgrStateOf(c.connIDManager),
		Gen:               connidsVerifGenStateOf(c.connIDGenerator, 0),
		Server:            c.perspective == protocol.PerspectiveServer,
		HandshakeComplete: c.handshakeComplete,
		Closed:            c.closeErr.Load() != nil,
		Now:               int64(monotime.Now()),
	}
	if c.peerParams != nil {
		v.HasPeerParams = true
		v.PeerLimit = c.peerParams.ActiveConnectionIDLimit
	}
	return v
}

// ConnidsVerifRoutesOf lists what the transport's routing table holds: IDs mapped to the
// connection c, IDs mapped to a closed-connection stand-in, and the number of other entries.
func ConnidsVerifRoutesOf(t *Transport, c *Conn) (own, closed [][]byte, others int) {
	t.mutex.Lock()
	defer t.mutex.Unlock()
	for id, h := range t.handlers {
		var hc *Conn
		switch x := h.(type) {
		case *Conn:
			hc = x
		case *wrappedConn:
			hc = x.Conn
		}
		switch h.(type) {
		case *Conn, *wrappedConn:
			if hc == c {
				own = append(own, append([]byte{}, id.Bytes()...))
			} else {
				others++
			}
		case *closedLocalConn, *closedRemoteConn:
			closed = append(closed, append([]byte{}, id.Bytes()...))
		default:
			others++
		}
	}
	sort.Slice(own, func(i, j int) bool { return string(own[i]) < string(own[j]) })
	sort.Slice(closed, func(i, j int) bool { return string(closed[i]) < string(closed[j]) })
	return
}

func ConnidsVerifTokensOf(t *Transport) [][16]byte {
	t.mutex.Lock()
	defer t.mutex.Unlock()
	var out [][16]byte
	for tok := range t.resetTokens {
		out = append(out, tok)
	}
	sort.Slice(out, func(i, j int) bool { return string(out[i][:]) < string(out[j][:]) })
	return out
}

// ConnidsVerifFillUntilLimit feeds the connection's own connIDManager NEW_CONNECTION_ID frames with
// consecutive sequence numbers (distinct IDs and tokens) and returns how many were accepted before
// the first CONNECTION_ID_LIMIT_ERROR, together with the manager's advertisedLimit field.
func ConnidsVerifFillUntilLimit(c *Conn) (accepted int, advertised uint64) {
	advertised = c.connIDManager.advertisedLimit
	for seq := uint64(1); seq < 40; seq++ {
		var tok protocol.StatelessResetToken
		tok[15], tok[14] = byte(seq), 0x50
		err := c.connIDManager.Add(&wire.NewConnectionIDFrame{
			SequenceNumber: seq, ConnectionID: protocol.ParseConnectionID([]byte{byte(seq), 9, 9, 9}), StatelessResetToken: tok,
		})
		if err != nil {
			return
		}
		accepted++
	}
	return
}
