//go:build verif

package quic

// C02 (unit udial, case Retx). Add-only: the REAL uPacketPacker over the real Initial crypto
// stream, retransmission queue and packet-number manager, with a pass-through sealer, so that
// the Initial CRYPTO retransmission bookkeeping (maybeGetCryptoPacket, retransmissionQueue,
// MarshalInitialPacketPayload, PackPTOProbePacket, planned flights) can be driven packet by
// packet: pack the flight, declare packets lost / acknowledged through the frames' own
// handlers, pack again.

import (

	"github.com/refraction-networking/uquic/internal/ackhandler"
	"github.com/refraction-networking/uquic/internal/handshake"
	"github.com/refraction-networking/uquic/internal/monotime"
	"github.com/refraction-networking/uquic/internal/protocol"
	"github.com/refraction-networking/uquic/internal/utils"
	"github.com/refraction-networking/uquic/internal/wire"
)

type verifClearSealer struct{}

func (verifClearSealer) Seal(dst, src []byte, _ protocol.PacketNumber, _ []byte) []byte {
	return append(append(dst, src...), make([]byte, 16)...)
}
func (verifClearSealer) EncryptHeader([]byte, *byte, []byte) {}
func (verifClearSealer) Overhead() int                      { return 16 }

type verifInitialOnly struct{ handshake bool }

func (*verifInitialOnly) GetInitialSealer() (handshake.LongHeaderSealer, error) {
	return verifClearSealer{}, nil
}
func (s *verifInitialOnly) GetHandshakeSealer() (handshake.LongHeaderSealer, error) {
	if s.handshake {
		return verifClearSealer{}, nil
	}
	return nil, handshake.ErrKeysNotYetAvailable
}
func (*verifInitialOnly) Get0RTTSealer() (handshake.LongHeaderSealer, error) {
	return nil, handshake.ErrKeysNotYetAvailable
}
func (*verifInitialOnly) Get1RTTSealer() (handshake.ShortHeaderSealer, error) {
	return nil, handshake.ErrKeysNotYetAvailable
}

type verifNoAcks struct{}

func (verifNoAcks) GetAckFrame(protocol.EncryptionLevel, monotime.Time, bool) *wire.AckFrame {
	return nil
}

// VerifRange is a CRYPTO stream range [Off, Off+Len).
type VerifRange struct{ Off, Len int64 }

// VerifRetxPacket is one Initial packet the packer produced.
type VerifRetxPacket struct {
	PN     int64
	Frames []VerifRange // the CRYPTO frames registered for loss recovery, in order
	Wire   []byte       // frame payload as serialised (pass-through sealer: in the clear)
	Size   int          // datagram size
	// Coalesced: number of QUIC packets in the datagram; Gap: bytes of the datagram that belong to
	// no packet and lie before the last packet's end (datagram padding between coalesced packets)
	Coalesced int
	Gap       int
}

// VerifRetx drives one connection's Initial packing.
type VerifRetx struct {
	p     *uPacketPacker
	q     *retransmissionQueue
	out   map[int64][]ackhandler.Frame
	v     protocol.Version
	max   protocol.ByteCount
	hello []byte
	keys  *verifInitialOnly
	hs    *cryptoStream
}

// NewVerifRetx builds the packer of a client connection whose ClientHello is hello.
func NewVerifRetx(spec *QUICSpec, hello []byte, maxPacketSize int) *VerifRetx {
	initial := newInitialCryptoStream(true)
	initial.DisableScrambling() // as newUClientConnection does
	_, _ = initial.Write(hello)
	var rtt utils.RTTStats
	var stats utils.ConnectionStats
	sph := ackhandler.NewUAckHandler(spec.InitialPacketSpec.initialPN(), protocol.ByteCount(maxPacketSize), &rtt, &stats, false, false,
		func(protocol.PacketNumber) {}, protocol.PerspectiveClient, nil, utils.DefaultLogger)
	if len(spec.InitialPacketSpec.InitPacketNumberLengths) > 0 {
		ackhandler.SetInitialPacketNumberLengths(sph, protocol.PacketNumber(spec.InitialPacketSpec.InitPacketNumber), spec.InitialPacketSpec.InitPacketNumberLengths)
	} else if spec.InitialPacketSpec.InitPacketNumberLength != 0 {
		ackhandler.SetInitialPacketNumberLength(sph, spec.InitialPacketSpec.InitPacketNumberLength)
	}
	q := newRetransmissionQueue()
	dcid := protocol.ParseConnectionID([]byte{1, 2, 3, 4, 5, 6, 7, 8})
	keys := &verifInitialOnly{}
	hs := newCryptoStream()
	pp := newPacketPacker(protocol.ParseConnectionID(nil), func() protocol.ConnectionID { return dcid }, initial, hs,
		sph, q, keys, newFramer(nil), verifNoAcks{}, nil, protocol.PerspectiveClient)
	return &VerifRetx{p: newUPacketPacker(pp, spec), q: q, out: map[int64][]ackhandler.Frame{}, v: protocol.Version1,
		max: protocol.ByteCount(maxPacketSize), hello: hello, keys: keys, hs: hs}
}

func (r *VerifRetx) convert(cp *coalescedPacket) *VerifRetxPacket {
	if cp == nil || len(cp.longHdrPackets) == 0 {
		if cp != nil {
			cp.buffer.Release()
		}
		return nil
	}
	lp := cp.longHdrPackets[0]
	out := &VerifRetxPacket{PN: int64(lp.header.PacketNumber), Size: len(cp.buffer.Data), Coalesced: len(cp.longHdrPackets)}
	if cp.shortHdrPacket != nil {
		out.Coalesced++
	}
	if out.Coalesced > 1 {
		// where does the second packet start? scan for it behind the first one
		sum := 0
		for _, q := range cp.longHdrPackets {
			sum += int(q.length)
		}
		if cp.shortHdrPacket != nil {
			sum += int(cp.shortHdrPacket.Length)
		}
		out.Gap = len(cp.buffer.Data) - sum
	}
	for _, f := range lp.frames {
		if cf, ok := f.Frame.(*wire.CryptoFrame); ok {
			out.Frames = append(out.Frames, VerifRange{int64(cf.Offset), int64(len(cf.Data))})
		}
	}
	hl := int(lp.header.GetLength(r.v))
	end := int(lp.length) - 16
	if hl <= end && end <= len(cp.buffer.Data) {
		out.Wire = append([]byte{}, cp.buffer.Data[hl:end]...)
	}
	r.out[out.PN] = lp.frames
	cp.buffer.Release()
	return out
}

// GiveHandshakeKeys makes the Handshake sealer available and queues n bytes of Handshake CRYPTO
// data (the client's Finished would be such data).
func (r *VerifRetx) GiveHandshakeKeys(n int) {
	r.keys.handshake = true
	_, _ = r.hs.Write(make([]byte, n))
}

// Pack is PackCoalescedPacket (probe=false) or PackPTOProbePacket at the Initial level; ping is
// the probe's addPingIfEmpty.
func (r *VerifRetx) Pack(probe, ping bool) (pkt *VerifRetxPacket, err error, panicked any) {
	defer func() {
		if p := recover(); p != nil {
			panicked = p
		}
	}()
	var cp *coalescedPacket
	if probe {
		cp, err = r.p.PackPTOProbePacket(protocol.EncryptionInitial, r.max, ping, monotime.Now(), r.v)
	} else {
		cp, err = r.p.PackCoalescedPacket(false, r.max, monotime.Now(), r.v)
	}
	if err != nil {
		return nil, err, nil
	}
	return r.convert(cp), nil, nil
}

// Lose declares the packet lost the way the sent-packet handler does: OnLost on every frame.
func (r *VerifRetx) Lose(pn int64) bool {
	fs, ok := r.out[pn]
	if !ok {
		return false
	}
	delete(r.out, pn)
	for _, f := range fs {
		if f.Handler != nil {
			f.Handler.OnLost(f.Frame)
		}
	}
	return true
}

// Ack acknowledges the packet: OnAcked on every frame.
func (r *VerifRetx) Ack(pn int64) bool {
	fs, ok := r.out[pn]
	if !ok {
		return false
	}
	delete(r.out, pn)
	for _, f := range fs {
		if f.Handler != nil {
			f.Handler.OnAcked(f.Frame)
		}
	}
	return true
}

// Queue is the Initial retransmission queue's CRYPTO frames, in order.
func (r *VerifRetx) Queue() []VerifRange {
	if r.q.initial == nil {
		return nil
	}
	out := make([]VerifRange, 0, len(r.q.initial.crypto))
	for _, f := range r.q.initial.crypto {
		out = append(out, VerifRange{int64(f.Offset), int64(len(f.Data))})
	}
	return out
}

// FlightPlanned reports whether a QUICFlightFrameBuilder laid out the flight.
func (r *VerifRetx) FlightPlanned() bool { return r.p.flightPlanned }

// Outstanding lists the packet numbers not yet lost or acknowledged.
func (r *VerifRetx) Outstanding() []int64 {
	var out []int64
	for pn := range r.out {
		out = append(out, pn)
	}
	return out
}


// UdialHandlerKind reports what the Transport's packet handler map holds under the connection ID:
// 0 nothing, 1 a live connection (returned), 2 a closedLocalConn, 3 a closedRemoteConn, 4 other.
func UdialHandlerKind(t *Transport, id []byte) (int, *Conn) {
	t.mutex.Lock()
	defer t.mutex.Unlock()
	h, ok := t.handlers[protocol.ParseConnectionID(id)]
	if !ok {
		return 0, nil
	}
	switch v := h.(type) {
	case *wrappedConn:
		return 1, v.Conn
	case *closedLocalConn:
		return 2, nil
	case *closedRemoteConn:
		return 3, nil
	}
	return 4, nil
}

// UdialDestroy closes the connection immediately (Conn.destroy: no CONNECTION_CLOSE, the
// connection IDs are removed from the handler map at once), as a cancelled dial or an idle
// timeout does.
func UdialDestroy(c *Conn, err error) { c.destroy(err) }
