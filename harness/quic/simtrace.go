//go:build verif

package quic

// Observation helpers for unit `simtrace` (C01): the two inputs of the size rule of Conn.SendDatagram.

// VerifSimtraceDgLimits returns peerParams.MaxDatagramFrameSize and currentMTUEstimate (0, 0 before the
// peer's transport parameters are known).
func VerifSimtraceDgLimits(c *Conn) (maxFrame, mtu int64) {
	if c.peerParams == nil {
		return 0, 0
	}
	return int64(c.peerParams.MaxDatagramFrameSize), int64(c.currentMTUEstimate.Load())
}
