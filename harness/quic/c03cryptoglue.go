//go:build verif

package quic

import (
	"errors"

	"github.com/refraction-networking/uquic/internal/ackhandler"
	"github.com/refraction-networking/uquic/internal/handshake"
	"github.com/refraction-networking/uquic/internal/monotime"
	"github.com/refraction-networking/uquic/internal/protocol"
	"github.com/refraction-networking/uquic/internal/utils"
	"github.com/refraction-networking/uquic/internal/wire"
)

// C03 glue harness: the real call sites Conn.handleCryptoFrame and Conn.dropEncryptionLevel on
// a Conn that has just the fields these two functions touch: the real cryptoStreamManager
// (real initialCryptoStream + two cryptoStreams), a recording TLS handler, and packet handlers
// whose DropPackets do nothing.

type C03Msg struct {
	Level int
	Data  []byte
}

var errC03Handler = errors.New("c03: scripted TLS handler error")

type c03FakeTLS struct {
	cryptoStreamHandler // nil: only the methods below are called
	msgs                []C03Msg
	count, failAt       int
	discardedInitial    int
}

func (h *c03FakeTLS) HandleMessage(data []byte, l protocol.EncryptionLevel) error {
	lv := 3
	switch l {
	case protocol.EncryptionInitial:
		lv = 0
	case protocol.EncryptionHandshake:
		lv = 1
	case protocol.Encryption1RTT:
		lv = 2
	}
	h.msgs = append(h.msgs, C03Msg{Level: lv, Data: append([]byte{}, data...)})
	h.count++
	if h.count-1 == h.failAt {
		return errC03Handler
	}
	return nil
}
func (h *c03FakeTLS) NextEvent() handshake.Event { return handshake.Event{Kind: handshake.EventNoEvent} }
func (h *c03FakeTLS) DiscardInitialKeys()         { h.discardedInitial++ }

type c03FakeSPH struct{ ackhandler.SentPacketHandler }

func (c03FakeSPH) DropPackets(protocol.EncryptionLevel, monotime.Time) {}

type C03VerifCryptoGlue struct {
	c *Conn
	h *c03FakeTLS
}

// failAt: index (0-based, over all levels) of the message on which the TLS handler fails; -1 never.
func C03VerifNewCryptoGlue(isClient bool, failAt int) *C03VerifCryptoGlue {
	h := &c03FakeTLS{failAt: failAt}
	c := &Conn{
		cryptoStreamManager:   newCryptoStreamManager(newInitialCryptoStream(isClient), newCryptoStream(), newCryptoStream()),
		cryptoStreamHandler:   h,
		sentPacketHandler:     c03FakeSPH{},
		receivedPacketHandler: *ackhandler.NewReceivedPacketHandler(utils.DefaultLogger),
	}
	return &C03VerifCryptoGlue{c: c, h: h}
}

// error classes: as verifCryptoErrClass, 4 unexpected level, 5 TLS handler error
func (g *C03VerifCryptoGlue) HandleCryptoFrame(l int, data []byte, offset int64) (int64, []C03Msg) {
	g.h.msgs = nil
	err := g.c.handleCryptoFrame(&wire.CryptoFrame{Offset: protocol.ByteCount(offset), Data: data}, c03Level(l), monotime.Now())
	cls := verifCryptoErrClass(err)
	if err == errC03Handler {
		cls = 5
	} else if cls == 9 && l == 3 {
		cls = 4
	}
	return cls, g.h.msgs
}

func (g *C03VerifCryptoGlue) DropEncryptionLevel(l int) int64 {
	return verifCryptoErrClass(g.c.dropEncryptionLevel(c03Level(l), monotime.Now()))
}
func (g *C03VerifCryptoGlue) DiscardedInitial() int  { return g.h.discardedInitial }
func (g *C03VerifCryptoGlue) DroppedInitialKeys() bool { return g.c.droppedInitialKeys }
