//go:build verif

package quic

// C07 (c07recvglue): the connection's receive glue in front of the received packet handler.
// A real Conn (constructed like unit streamsglue does, never run, with or without an in-memory
// qlog trace) gets a scripted unpacker (decryption is C05's subject) and then the REAL
// handleShortHeaderPacket / handleLongHeaderPacket are called: duplicate check before frame
// handling, handleFrames computing isAckEliciting, ReceivedPacket(pn, ecn, level, rcvTime,
// isAckEliciting), Initial keys dropped by the server's first Handshake packet, 0-RTT packets
// dropped by a client. Add-only.

import (
	"fmt"
	"time"

	"github.com/refraction-networking/uquic/internal/ackhandler"
	"github.com/refraction-networking/uquic/internal/monotime"
	"github.com/refraction-networking/uquic/internal/protocol"
	"github.com/refraction-networking/uquic/internal/wire"
	"github.com/refraction-networking/uquic/qlog"
)

type verifC07Unpacker struct {
	pn   protocol.PacketNumber
	lvl  protocol.EncryptionLevel
	data []byte
}

func (u *verifC07Unpacker) UnpackShortHeader(monotime.Time, []byte) (protocol.PacketNumber, protocol.PacketNumberLen, protocol.KeyPhaseBit, []byte, error) {
	return u.pn, protocol.PacketNumberLen2, protocol.KeyPhaseZero, u.data, nil
}

func (u *verifC07Unpacker) UnpackLongHeader(hdr *wire.Header, _ []byte) (*unpackedPacket, error) {
	return &unpackedPacket{
		hdr:             &wire.ExtendedHeader{Header: *hdr, PacketNumber: u.pn, PacketNumberLen: protocol.PacketNumberLen2},
		encryptionLevel: u.lvl,
		data:            u.data,
	}, nil
}

// VerifC07RG is a constructed, not running connection with a scripted unpacker.
type VerifC07RG struct {
	sg     *VerifSGConn
	un     *verifC07Unpacker
	Client bool
	stream int64 // next peer-initiated bidirectional stream number
	seen   int   // events of the trace already counted
}

func NewVerifC07RG(client, tracer bool) (v *VerifC07RG, err error) {
	defer func() {
		if r := recover(); r != nil {
			err = fmt.Errorf("panic: %v", r)
		}
	}()
	sg, err := NewVerifSGConn(client, tracer, 1000, 1000)
	if err != nil {
		return nil, err
	}
	sg.c.handshakeConfirmed = true
	un := &verifC07Unpacker{}
	sg.c.unpacker = un
	return &VerifC07RG{sg: sg, un: un, Client: client}, nil
}

func (v *VerifC07RG) HasTracer() bool { return v.sg.c.qlogger != nil }

// VerifC07RGResult: what one packet did.
type VerifC07RGResult struct {
	Processed   bool  // the return value wasProcessed
	Err         string
	Panic       string
	Streams     int64 // peer-initiated streams opened by this packet's frames
	EvReceived  int   // packet_received events recorded (with a tracer)
	EvDuplicate int   // packet_dropped trigger=duplicate events recorded (with a tracer)
	EvDropOther int
}

// frame kinds: 0 PING, 1 STREAM on a new peer-initiated bidirectional stream (0-RTT / 1-RTT only),
// 2 PADDING, 3 MAX_DATA (0-RTT / 1-RTT only)
func (v *VerifC07RG) payload(kinds []int) []byte {
	var data []byte
	for _, k := range kinds {
		switch k {
		case 0:
			data, _ = (&wire.PingFrame{}).Append(data, protocol.Version1)
		case 1:
			id := protocol.StreamID(4 * v.stream)
			if v.Client {
				id++ // server-initiated
			}
			v.stream++
			data, _ = (&wire.StreamFrame{StreamID: id, Data: []byte("x"), DataLenPresent: true}).Append(data, protocol.Version1)
		case 2:
			data = append(data, 0)
		case 3:
			data, _ = (&wire.MaxDataFrame{MaximumData: 1 << 21}).Append(data, protocol.Version1)
		}
	}
	if len(data) == 0 {
		data = []byte{0}
	}
	return data
}

// Packet hands one packet to the connection the way handlePacketImpl does after parsing the header.
// lvl is the protocol.EncryptionLevel (1 Initial, 2 Handshake, 3 0-RTT, 4 1-RTT).
func (v *VerifC07RG) Packet(lvl int, pn int64, ecn int, now int64, kinds []int) (res VerifC07RGResult) {
	c := v.sg.c
	_, before, _, _ := v.sg.In(false)
	defer func() {
		if r := recover(); r != nil {
			res.Panic = fmt.Sprint(r)
		}
		_, after, _, _ := v.sg.In(false)
		res.Streams = after - before
		if v.sg.trace != nil {
			for _, e := range v.sg.trace.events[v.seen:] {
				switch x := e.(type) {
				case qlog.PacketReceived:
					res.EvReceived++
				case qlog.PacketDropped:
					if x.Trigger == qlog.PacketDropDuplicate {
						res.EvDuplicate++
					} else {
						res.EvDropOther++
					}
				}
			}
			v.seen = len(v.sg.trace.events)
		}
	}()
	v.un.pn, v.un.lvl, v.un.data = protocol.PacketNumber(pn), protocol.EncryptionLevel(lvl), v.payload(kinds)
	p := receivedPacket{
		buffer:     getPacketBuffer(),
		remoteAddr: c.RemoteAddr(),
		rcvTime:    monotime.Time(now),
		ecn:        protocol.ECN(ecn),
	}
	var err error
	if protocol.EncryptionLevel(lvl) == protocol.Encryption1RTT {
		p.data = append([]byte{0x40, 4, 3, 2, 1, 0, 0}, v.un.data...)
		res.Processed, err = c.handleShortHeaderPacket(p, false, 0)
	} else {
		typ := protocol.PacketTypeInitial
		switch protocol.EncryptionLevel(lvl) {
		case protocol.EncryptionHandshake:
			typ = protocol.PacketTypeHandshake
		case protocol.Encryption0RTT:
			typ = protocol.PacketType0RTT
		}
		hdr := &wire.Header{
			Type: typ, Version: c.version, SrcConnectionID: c.handshakeDestConnID,
			DestConnectionID: protocol.ParseConnectionID([]byte{4, 3, 2, 1}), Length: protocol.ByteCount(len(v.un.data) + 2),
		}
		p.data = append([]byte{0xc0}, v.un.data...)
		res.Processed, err = c.handleLongHeaderPacket(p, hdr, 0)
	}
	if err != nil {
		res.Err = err.Error()
	}
	return res
}

// block modes of the run loop, for ArmTimer
const (
	VerifC07BlockNone              = int(blockModeNone)
	VerifC07BlockHard              = int(blockModeHardBlocked)
	VerifC07BlockCongestionLimited = int(blockModeCongestionLimited)
)

// ArmTimer sets the run loop's block mode, calls the REAL maybeResetTimer and reports how far
// ahead (ns from now) the connection timer is armed.
func (v *VerifC07RG) ArmTimer(mode int) (ahead int64, ok bool) {
	defer func() {
		if r := recover(); r != nil {
			ok = false
		}
	}()
	c := v.sg.c
	if c.timer == nil {
		c.timer = time.NewTimer(time.Hour)
	}
	c.blocked = blockMode(mode)
	c.pacingDeadline = 0
	c.maybeResetTimer()
	w, ok1 := verifTimerWhen(c.timer)
	probe := time.NewTimer(time.Hour)
	pw, ok2 := verifTimerWhen(probe)
	probe.Stop()
	if !ok1 || !ok2 {
		return 0, false
	}
	return w - (pw - int64(time.Hour)), true
}

// MonoNow is monotime.Now() as the connection sees it.
func (v *VerifC07RG) MonoNow() int64 { return int64(monotime.Now()) }

func (v *VerifC07RG) Snapshot() ackhandler.VerifRPHState {
	return ackhandler.VerifRPHSnapshot(&v.sg.c.receivedPacketHandler)
}

// DroppedInitial: the connection's own flag (set by dropEncryptionLevel).
func (v *VerifC07RG) DroppedInitial() bool { return v.sg.c.droppedInitialKeys }

func (v *VerifC07RG) Shutdown() { v.sg.Shutdown() }
