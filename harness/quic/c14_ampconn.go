//go:build verif

package quic

import (
	"github.com/refraction-networking/uquic/internal/handshake"
	"github.com/refraction-networking/uquic/internal/protocol"
	"github.com/refraction-networking/uquic/internal/wire"
)

// C14 (integration monitor): classify a datagram seen on the wire. Add-only.

// VerifC14DatagramInfo parses the long-header packets coalesced in one datagram.
// types: protocol.PacketType of each long-header packet, in order; short: a short-header packet follows.
// initialTokenLen: token length of the first Initial packet (-1 if none); dcid: its destination connection ID.
func VerifC14DatagramInfo(data []byte) (types []protocol.PacketType, short bool, initialTokenLen int, dcid []byte) {
	initialTokenLen = -1
	for len(data) > 0 {
		if !wire.IsLongHeaderPacket(data[0]) {
			return types, true, initialTokenLen, dcid
		}
		hdr, _, rest, err := wire.ParsePacket(data)
		if err != nil {
			return types, false, initialTokenLen, dcid
		}
		types = append(types, hdr.Type)
		if hdr.Type == protocol.PacketTypeInitial && initialTokenLen < 0 {
			initialTokenLen = len(hdr.Token)
			dcid = hdr.DestConnectionID.Bytes()
		}
		data = rest
	}
	return types, false, initialTokenLen, dcid
}

// VerifC14ServerInitialIsConnClose opens the first packet of a server datagram with the
// Initial keys (derivable by anyone from the client's first destination connection ID) and
// reports whether it is an Initial packet whose first frame is CONNECTION_CLOSE.
func VerifC14ServerInitialIsConnClose(datagram []byte, origDestConnID []byte) bool {
	if len(datagram) == 0 || !wire.IsLongHeaderPacket(datagram[0]) {
		return false
	}
	hdr, pdata, _, err := wire.ParsePacket(datagram)
	if err != nil || hdr.Type != protocol.PacketTypeInitial {
		return false
	}
	_, opener := handshake.NewInitialAEAD(protocol.ParseConnectionID(origDestConnID), protocol.PerspectiveClient, hdr.Version)
	cp := append([]byte{}, pdata...)
	_, decrypted, err := (&packetUnpacker{}).unpackLongHeaderPacket(opener, hdr, cp)
	if err != nil {
		return false
	}
	for _, b := range decrypted {
		if b == 0 { // PADDING
			continue
		}
		return b == 0x1c || b == 0x1d
	}
	return false
}
