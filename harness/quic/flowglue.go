//go:build verif

package quic

import (
	"bufio"
	"context"
	"fmt"
	"sort"
	"strings"
	"time"

	"github.com/refraction-networking/uquic/internal/ackhandler"
	"github.com/refraction-networking/uquic/internal/flowcontrol"
	"github.com/refraction-networking/uquic/internal/monotime"
	"github.com/refraction-networking/uquic/internal/protocol"
	"github.com/refraction-networking/uquic/internal/qerr"
	"github.com/refraction-networking/uquic/internal/utils"
	u "github.com/refraction-networking/uquic/internal/verifutil"
	"github.com/refraction-networking/uquic/internal/wire"
)

// flowglue unit (C04, monitor-only): the sender/receiver glue around the flow controller.
// Real newSendStream / newReceiveStream on real stream flow controllers sharing one real
// connection flow controller; a recording proxy around each stream controller checks the
// CALLER DISCIPLINE the FlowCtl theorems assume (AddBytesSent <= SendWindowSize, AddBytesRead
// <= received-but-unread) and the monitors state C04 on what goes on the wire: offsets of
// STREAM frames and final sizes of RESET_STREAM(_AT) vs. the limits given, STREAM_DATA_BLOCKED
// once per limit, MAX_STREAM_DATA strictly increasing, completed receive streams fully credited.

type glueWorld struct {
	w      *bufio.Writer
	r      *u.Rng
	conn   flowcontrol.ConnectionFlowController
	rtt    *utils.RTTStats
	now    int64
	human  []string
	fails  map[string]bool
	send   []*glueSend
	recv   []*glueRecv
	cMax   int64 // largest MAX_DATA given to us
	cAdv   int64 // last connection limit we advertised
	connWU bool  // onHasConnectionData was signalled
	framer      *framer
	dataBlocked map[int64]int // DATA_BLOCKED frames produced, per limit value
	nHeld, nReset, nResetAfterHold int
	curOp  string // class of the op being executed (part of monitor keys)
}

func (g *glueWorld) fail(key, desc string) {
	if g.fails[key] {
		return
	}
	g.fails[key] = true
	fmt.Fprintf(g.w, "MONFAIL\t%s\t%s\t%s\n", key, desc, strings.Join(g.human, " ; "))
}
func (g *glueWorld) log(f string, a ...any) { g.human = append(g.human, fmt.Sprintf(f, a...)) }

// recording proxy around a real stream flow controller
type glueFC struct {
	flowcontrol.StreamFlowController
	g    *glueWorld
	name string
}

func (f *glueFC) AddBytesSent(n protocol.ByteCount) {
	if win := f.StreamFlowController.SendWindowSize(); n > win || n < 0 {
		f.g.fail("flowglue/discipline/sent-beyond-window", fmt.Sprintf("%s: AddBytesSent(%d) with SendWindowSize()=%d", f.name, n, win))
	}
	f.StreamFlowController.AddBytesSent(n)
}

func (f *glueFC) AddBytesRead(n protocol.ByteCount) (bool, bool) {
	st, _ := flowcontrol.VerifStreamState(f.StreamFlowController)
	if st[flowcontrol.VBytesRead]+int64(n) > st[flowcontrol.VHighestReceived] || n < 0 {
		f.g.fail("flowglue/discipline/read-beyond-received", fmt.Sprintf("%s: AddBytesRead(%d) with bytesRead=%d highestReceived=%d", f.name, n, st[flowcontrol.VBytesRead], st[flowcontrol.VHighestReceived]))
	}
	return f.StreamFlowController.AddBytesRead(n)
}

type glueSender struct {
	g *glueWorld
}

func (s *glueSender) onHasConnectionData() { s.g.connWU = true }
func (s *glueSender) onHasStreamData(id protocol.StreamID, str *SendStream) {
	if s.g.framer != nil {
		s.g.framer.AddActiveStream(id, str)
	}
}
func (s *glueSender) onHasStreamControlFrame(id protocol.StreamID, _ streamControlFrameGetter) {
	for _, r := range s.g.recv {
		if r.id == id {
			r.ctrl = true
		}
	}
	for _, x := range s.g.send {
		if x.id == id {
			x.ctrl = true
		}
	}
}
func (s *glueSender) onStreamCompleted(id protocol.StreamID) {
	for _, r := range s.g.recv {
		if r.id == id {
			r.completedCalls++
		}
	}
	for _, x := range s.g.send {
		if x.id == id {
			x.completed = true
		}
	}
}

type glueSend struct {
	id        protocol.StreamID
	str       *SendStream
	fc        *glueFC
	maxSend   int64 // largest MAX_STREAM_DATA ever given (or initial)
	highest   int64 // highest offset+len in any STREAM frame popped
	finalSize int64 // final size announced in a RESET_STREAM(_AT), -1 if none
	relSize   int64
	resetAt   bool // that frame carried a reliable size > 0
	buffered  int64 // written, not yet popped as new data
	written   int64
	blocked   map[int64]int
	out       []*wire.StreamFrame
	outReset  []*wire.ResetStreamFrame
	closed    bool
	cancelled bool
	completed bool
	ctrl      bool
	held      bool // a RESET_STREAM_AT is being held back until the reliable data was sent
}

type glueRecv struct {
	id             protocol.StreamID
	str            *ReceiveStream
	fc             *glueFC
	adv            int64 // last stream limit put on the wire (initial window, MAX_STREAM_DATA)
	got            []bool
	hi             int64 // highest offset received
	final          int64 // final size, -1 unknown
	appRead        int64
	cancelled      bool
	reset          bool
	relSize        int64
	completedCalls int
	checkedDone    bool
	ctrl           bool
	dead           bool // closeForShutdown / Read watchdog fired
}

func (g *glueWorld) sumHighest() (s int64) {
	for _, x := range g.send {
		s += max(x.highest, x.finalSize)
	}
	return
}

func (g *glueWorld) checkSend(x *glueSend, i int) {
	if x.highest > x.maxSend {
		g.fail("flowglue/send/stream-limit-exceeded", fmt.Sprintf("send stream %d put offset %d on the wire, largest MAX_STREAM_DATA given is %d", i, x.highest, x.maxSend))
	}
	cls := "reset"
	if x.resetAt {
		cls = "resetat"
	}
	if x.finalSize > x.maxSend {
		// what the in-tree receiver does with this frame when it enforces the limit it gave
		peerConn := flowcontrol.NewConnectionFlowController(1<<30, 1<<30, func(protocol.ByteCount) bool { return true }, g.rtt, utils.DefaultLogger)
		peerFC := flowcontrol.NewStreamFlowController(x.id, peerConn, protocol.ByteCount(x.maxSend), protocol.ByteCount(x.maxSend), 0, g.rtt, utils.DefaultLogger)
		peer := newReceiveStream(x.id, &glueSender{g: &glueWorld{}}, peerFC)
		perr := peer.handleResetStreamFrame(&wire.ResetStreamFrame{StreamID: x.id, FinalSize: protocol.ByteCount(x.finalSize), ReliableSize: protocol.ByteCount(x.relSize)}, monotime.Time(g.now))
		g.fail("flowglue/send/reset-final-size-beyond-stream-limit/"+cls, fmt.Sprintf("send stream %d announced final size %d in RESET_STREAM(_AT), largest MAX_STREAM_DATA given is %d; a receive stream with that window answers: %v", i, x.finalSize, x.maxSend, perr))
	}
	if s := g.sumHighest(); s > g.cMax {
		key := "flowglue/send/conn-limit-exceeded"
		var sd int64
		for _, y := range g.send {
			sd += y.highest
		}
		if sd <= g.cMax {
			ccls := "reset"
			for _, y := range g.send {
				if y.resetAt && y.finalSize > y.highest {
					ccls = "resetat"
				}
			}
			key = "flowglue/send/reset-final-size-beyond-conn-limit/" + ccls
		}
		g.fail(key, fmt.Sprintf("send streams together used %d bytes of connection credit (STREAM offsets and RESET final sizes), largest MAX_DATA given is %d", s, g.cMax))
	}
	st, _ := flowcontrol.VerifStreamState(x.fc.StreamFlowController)
	if st[flowcontrol.VBytesSent] != x.highest {
		g.fail("flowglue/send/accounting", fmt.Sprintf("send stream %d: flow controller counted %d bytes sent, highest offset on the wire is %d (retransmissions must add nothing)", i, st[flowcontrol.VBytesSent], x.highest))
	}
}

func (g *glueWorld) checkRecv() {
	cs := flowcontrol.VerifConnState(g.conn)
	var sumRead, sumRecv int64
	for i, r := range g.recv {
		st, _ := flowcontrol.VerifStreamState(r.fc.StreamFlowController)
		sumRead += st[flowcontrol.VBytesRead]
		sumRecv += st[flowcontrol.VHighestReceived]
		if r.completedCalls > 1 {
			g.fail("flowglue/recv/completed-twice", fmt.Sprintf("receive stream %d reported completed %d times", i, r.completedCalls))
		}
		if r.completedCalls > 0 && !r.checkedDone {
			r.checkedDone = true
			if r.final < 0 || st[flowcontrol.VBytesRead] != r.final || st[flowcontrol.VHighestReceived] != r.final {
				g.fail("flowglue/recv/completed-uncredited/"+g.curOp, fmt.Sprintf("receive stream %d completed (final size %d) with flow controller bytesRead=%d highestReceived=%d: %d bytes of connection credit are never returned", i, r.final, st[flowcontrol.VBytesRead], st[flowcontrol.VHighestReceived], st[flowcontrol.VHighestReceived]-st[flowcontrol.VBytesRead]))
			}
		}
	}
	if cs[flowcontrol.VBytesRead] != sumRead {
		g.fail("flowglue/recv/conservation", fmt.Sprintf("connection bytesRead %d != sum over streams %d", cs[flowcontrol.VBytesRead], sumRead))
	}
	if cs[flowcontrol.VHighestReceived] != sumRecv {
		g.fail("flowglue/recv/received-sum", fmt.Sprintf("connection highestReceived %d != sum over streams %d", cs[flowcontrol.VHighestReceived], sumRecv))
	}
}

func (g *glueWorld) sendIdx(id protocol.StreamID) (int, *glueSend) {
	for k, y := range g.send {
		if y.id == id {
			return k, y
		}
	}
	return -1, nil
}

func (g *glueWorld) onStreamFrame(f *wire.StreamFrame) {
	i, x := g.sendIdx(f.StreamID)
	if x == nil {
		return
	}
	end := int64(f.Offset + f.DataLen())
	g.log("s%d STREAM[%d,%d)fin=%v", i, f.Offset, end, f.Fin)
	if end > x.highest {
		x.buffered -= end - x.highest
		x.highest = end
	}
	x.out = append(x.out, f)
}

func (g *glueWorld) onStreamDataBlocked(id protocol.StreamID, lim int64) {
	i, x := g.sendIdx(id)
	if x == nil {
		return
	}
	g.log("s%d STREAM_DATA_BLOCKED(%d)", i, lim)
	x.blocked[lim]++
	if x.blocked[lim] > 1 {
		g.fail("flowglue/send/blocked-twice", fmt.Sprintf("send stream %d emitted STREAM_DATA_BLOCKED(%d) %d times", i, lim, x.blocked[lim]))
	}
	if lim != x.maxSend {
		g.fail("flowglue/send/blocked-value", fmt.Sprintf("send stream %d emitted STREAM_DATA_BLOCKED(%d) but its limit is %d", i, lim, x.maxSend))
	}
}

func (g *glueWorld) onDataBlocked(off int64) {
	g.log("DATA_BLOCKED(%d)", off)
	g.dataBlocked[off]++
	if g.dataBlocked[off] > 1 {
		g.fail("flowglue/send/data-blocked-twice", fmt.Sprintf("DATA_BLOCKED(%d) was produced %d times for the same connection limit", off, g.dataBlocked[off]))
	}
	if off != g.cMax {
		g.fail("flowglue/send/data-blocked-value", fmt.Sprintf("DATA_BLOCKED(%d) but the connection limit is %d", off, g.cMax))
	}
}

func glueByte(off int64) byte { return byte(off*7 + 3) }

func (g *glueWorld) drainControl() {
	now := monotime.Time(g.now)
	for i, r := range g.recv {
		for r.ctrl {
			r.ctrl = false
			f, ok, more := r.str.getControlFrame(now)
			if !ok {
				break
			}
			r.ctrl = more
			switch fr := f.Frame.(type) {
			case *wire.MaxStreamDataFrame:
				v := int64(fr.MaximumStreamData)
				g.log("r%d.getControlFrame()=>MAX_STREAM_DATA(%d)", i, v)
				if v <= r.adv {
					key := "flowglue/recv/max-stream-data-not-increasing/nonzero"
					if st, fin := flowcontrol.VerifStreamState(r.fc.StreamFlowController); v == 0 && fin {
						_ = st
						key = "flowglue/recv/max-stream-data-not-increasing/zero-after-final-size"
					}
					g.fail(key, fmt.Sprintf("receive stream %d sent MAX_STREAM_DATA %d after having advertised %d", i, v, r.adv))
				} else {
					r.adv = v
				}
			case *wire.StopSendingFrame:
				g.log("r%d.getControlFrame()=>STOP_SENDING", i)
			}
		}
	}
	if g.connWU || g.r.Chance(1, 4) {
		g.connWU = false
		if off := int64(g.conn.GetWindowUpdate(now)); off > 0 {
			g.log("conn.GetWindowUpdate()=>MAX_DATA(%d)", off)
			if off <= g.cAdv {
				g.fail("flowglue/recv/max-data-not-increasing", fmt.Sprintf("MAX_DATA %d after having advertised %d", off, g.cAdv))
			}
			g.cAdv = off
		}
	}
	for i, x := range g.send {
		if x.ctrl {
			x.ctrl = false
			f, ok, more := x.str.getControlFrame(now)
			if !ok && more {
				x.ctrl = true // like the framer: the stream stays registered (frame held back)
				if !x.held {
					x.held = true
					g.nHeld++
				}
				g.log("s%d.getControlFrame()=>held back", i)
			}
			if ok {
				if rs, ok := f.Frame.(*wire.ResetStreamFrame); ok {
					g.log("s%d.getControlFrame()=>RESET_STREAM(final=%d,reliable=%d)", i, rs.FinalSize, rs.ReliableSize)
					if int64(rs.FinalSize) > x.finalSize {
						x.finalSize = int64(rs.FinalSize)
						x.relSize = int64(rs.ReliableSize)
						x.resetAt = rs.ReliableSize > 0
					}
					x.outReset = append(x.outReset, rs)
					g.nReset++
					if x.held {
						x.held = false
						g.nResetAfterHold++
					}
					g.checkSend(x, i)
				}
			}
		}
	}
}

func (g *glueWorld) readOp(i int, n int) {
	r := g.recv[i]
	type res struct {
		n   int
		err error
	}
	ch := make(chan res, 1)
	buf := make([]byte, n)
	go func() {
		k, err := r.str.Read(buf)
		ch <- res{k, err}
	}()
	select {
	case x := <-ch:
		g.log("r%d.Read(%d)=>(%d,%v)", i, n, x.n, x.err != nil)
		for k := 0; k < x.n; k++ {
			if buf[k] != glueByte(r.appRead+int64(k)) {
				g.fail("flowglue/recv/wrong-bytes", fmt.Sprintf("receive stream %d delivered a wrong byte at offset %d", i, r.appRead+int64(k)))
				break
			}
		}
		r.appRead += int64(x.n)
	case <-time.After(2 * time.Second):
		// the generator only reads when Read cannot block; treat as a harness problem
		fmt.Fprintf(g.w, "INFO\tflowglue: Read blocked unexpectedly: %s\n", strings.Join(g.human, " ; "))
		r.str.closeForShutdown(fmt.Errorf("watchdog"))
		<-ch
		r.dead = true
	}
}

func (g *glueWorld) contiguous(r *glueRecv) int64 {
	k := r.appRead
	for k < int64(len(r.got)) && r.got[k] {
		k++
	}
	return k - r.appRead
}

func runFlowGlueCase(w *bufio.Writer, rng *u.Rng, caseNo int, dist map[string]int) {
	g := &glueWorld{w: w, r: rng, fails: map[string]bool{}}
	defer func() {
		if e := recover(); e != nil {
			slug := strings.Map(func(c rune) rune {
				if c >= 'a' && c <= 'z' || c >= 'A' && c <= 'Z' || c >= '0' && c <= '9' {
					return c
				}
				return '-'
			}, fmt.Sprint(e))
			if len(slug) > 40 {
				slug = slug[:40]
			}
			fmt.Fprintf(w, "MONFAIL\tflowglue/panic/%s\tpanic: %v\t%s\n", slug, e, strings.Join(g.human, " ; "))
		}
	}()
	r := rng
	g.rtt = utils.NewRTTStats()
	g.now = int64(r.Range(1, 1000)) * 1000000
	resetAt := r.Chance(1, 2) // RESET_STREAM_AT negotiated
	small := []int64{4, 8, 10, 16, 33, 100}
	cw := small[r.Intn(len(small))] * int64(r.Range(1, 3))
	g.cAdv = cw
	g.conn = flowcontrol.NewConnectionFlowController(protocol.ByteCount(cw), protocol.ByteCount(cw*int64(r.Range(1, 4))),
		func(protocol.ByteCount) bool { return !r.Chance(1, 6) }, g.rtt, utils.DefaultLogger)
	g.cMax = []int64{0, 5, 20, 60, 300}[r.Intn(5)]
	g.conn.UpdateSendWindow(protocol.ByteCount(g.cMax))
	g.framer = newFramer(g.conn)
	g.dataBlocked = map[int64]int{}
	g.log("conn(rw=%d,MAX_DATA=%d,resetAt=%v)", cw, g.cMax, resetAt)
	sender := &glueSender{g: g}
	ns, nr := r.Range(0, 2), r.Range(1, 3)
	if r.Chance(1, 3) {
		ns, nr = r.Range(1, 3), 0
	}
	for i := 0; i < ns; i++ {
		sw := []int64{0, 3, 10, 25, 100}[r.Intn(5)]
		id := protocol.StreamID(4*i + 2)
		fc := &glueFC{g: g, name: fmt.Sprintf("s%d", i), StreamFlowController: flowcontrol.NewStreamFlowController(id, g.conn, 100, 200, protocol.ByteCount(sw), g.rtt, utils.DefaultLogger)}
		x := &glueSend{id: id, fc: fc, maxSend: sw, finalSize: -1, blocked: map[int64]int{}}
		x.str = newSendStream(context.Background(), id, sender, fc, resetAt)
		g.send = append(g.send, x)
		g.log("newSendStream s%d(MAX_STREAM_DATA=%d)", i, sw)
	}
	for i := 0; i < nr; i++ {
		rw := small[r.Intn(len(small))]
		id := protocol.StreamID(4*i + 3)
		fc := &glueFC{g: g, name: fmt.Sprintf("r%d", i), StreamFlowController: flowcontrol.NewStreamFlowController(id, g.conn, protocol.ByteCount(rw), protocol.ByteCount(rw*int64(r.Range(1, 4))), 0, g.rtt, utils.DefaultLogger)}
		x := &glueRecv{id: id, fc: fc, adv: rw, final: -1}
		x.str = newReceiveStream(id, sender, fc)
		g.recv = append(g.recv, x)
		g.log("newReceiveStream r%d(rw=%d)", i, rw)
	}
	v := protocol.Version1
	dead := false
	nops := r.Range(10, 45)
	for op := 0; op < nops && !dead; op++ {
		g.now += int64(r.Range(0, 400)) * 1000000
		now := monotime.Time(g.now)
		pickSend := len(g.send) > 0 && (len(g.recv) == 0 || r.Bool())
		g.curOp = "send-side"
		if pickSend {
			i := r.Intn(len(g.send))
			x := g.send[i]
			switch c := r.Intn(20); {
			case c < 5: // Write (never blocks: the data fits the stream's frame buffer)
				n := int64(r.Range(1, 40))
				if x.closed || x.cancelled || x.buffered+n > 1000 {
					continue
				}
				buf := make([]byte, n)
				k, err := x.str.Write(buf)
				g.log("s%d.Write(%d)=>(%d,%v)", i, n, k, err != nil)
				x.buffered += int64(k)
				x.written += int64(k)
			case c < 11 && r.Chance(2, 5): // the REAL framer packs a packet: STREAM frames of the active streams,
				// STREAM_DATA_BLOCKED of streams that just became blocked, DATA_BLOCKED if the connection did
				maxLen := protocol.ByteCount([]int{130, 140, 200, 1200}[r.Intn(4)])
				frames, sfs, _ := g.framer.Append(nil, nil, maxLen, now, v)
				g.log("framer.Append(%d)", maxLen)
				for _, sf := range sfs {
					g.onStreamFrame(sf.Frame)
				}
				for _, f := range frames {
					switch fr := f.Frame.(type) {
					case *wire.StreamDataBlockedFrame:
						g.onStreamDataBlocked(fr.StreamID, int64(fr.MaximumStreamData))
					case *wire.DataBlockedFrame:
						g.onDataBlocked(int64(fr.MaximumData))
					}
				}
				for k, y := range g.send {
					g.checkSend(y, k)
				}
			case c < 11: // what the framer does, step by step: pop a STREAM frame, then ask the connection controller
				maxBytes := protocol.ByteCount([]int{4, 6, 9, 20, 60, 1200}[r.Intn(6)])
				f, blocked, more := x.str.popStreamFrame(maxBytes, v)
				if f.Frame != nil {
					g.onStreamFrame(f.Frame)
				} else {
					g.log("s%d.popStreamFrame(%d)=>nil more=%v", i, maxBytes, more)
				}
				if blocked != nil {
					g.onStreamDataBlocked(blocked.StreamID, int64(blocked.MaximumStreamData))
				}
				if b, off := g.conn.IsNewlyBlocked(); b {
					g.onDataBlocked(int64(off))
				}
				g.checkSend(x, i)
			case c < 13: // MAX_STREAM_DATA (possibly reordered / duplicate)
				lim := max(x.maxSend+int64(r.Range(-5, 30)), 0)
				if r.Chance(1, 3) {
					lim = x.maxSend // a duplicate MAX_STREAM_DATA
				}
				x.str.updateSendWindow(protocol.ByteCount(lim))
				x.maxSend = max(x.maxSend, lim)
				g.log("s%d MAX_STREAM_DATA(%d)", i, lim)
			case c < 15: // MAX_DATA
				lim := max(g.cMax+int64(r.Range(-5, 40)), 0)
				if r.Chance(1, 3) {
					lim = g.cMax // a duplicate MAX_DATA (or the handshake repeating the remembered 0-RTT limit)
				}
				g.conn.UpdateSendWindow(protocol.ByteCount(lim))
				g.cMax = max(g.cMax, lim)
				g.log("MAX_DATA(%d)", lim)
			case c < 17: // loss or ack of an outstanding STREAM frame
				if len(x.out) == 0 {
					continue
				}
				k := r.Intn(len(x.out))
				f := x.out[k]
				x.out = append(x.out[:k], x.out[k+1:]...)
				if r.Bool() {
					g.log("s%d lost [%d,%d)", i, f.Offset, f.Offset+f.DataLen())
					(*sendStreamAckHandler)(x.str).OnLost(f)
				} else {
					g.log("s%d acked [%d,%d)", i, f.Offset, f.Offset+f.DataLen())
					(*sendStreamAckHandler)(x.str).OnAcked(f)
				}
			case c == 17:
				if x.closed || x.cancelled {
					continue
				}
				x.closed = true
				x.str.Close()
				g.log("s%d.Close()", i)
			case c == 18:
				if r.Bool() {
					x.str.SetReliableBoundary()
					g.log("s%d.SetReliableBoundary()", i)
				}
				if x.closed && r.Bool() {
					continue
				}
				x.cancelled = true
				x.str.CancelWrite(7)
				g.log("s%d.CancelWrite()", i)
			default:
				x.str.handleStopSendingFrame(&wire.StopSendingFrame{StreamID: x.id, ErrorCode: 9})
				x.cancelled = true
				g.log("s%d STOP_SENDING", i)
			}
		} else {
			i := r.Intn(len(g.recv))
			x := g.recv[i]
			if x.dead {
				continue
			}
			st, _ := flowcontrol.VerifStreamState(x.fc.StreamFlowController)
			cs := flowcontrol.VerifConnState(g.conn)
			limit := min(st[flowcontrol.VReceiveWindow], st[flowcontrol.VHighestReceived]+cs[flowcontrol.VReceiveWindow]-cs[flowcontrol.VHighestReceived])
			if x.final >= 0 {
				limit = min(limit, x.final)
			}
			switch c := r.Intn(20); {
			case c < 8: // STREAM frame
				var off, n int64
				switch r.Intn(8) {
				case 0: // retransmission
					off = int64(r.Intn(int(x.hi) + 1))
					n = int64(r.Intn(int(x.hi-off) + 1))
				case 1: // up to the limit exactly
					off = x.hi
					n = limit - off
				case 2: // one byte beyond
					off = x.hi
					n = limit - off + 1
					if x.final >= 0 {
						n = limit - off
					}
				case 3: // a gap
					off = min(x.hi+int64(r.Range(1, 3)), limit)
					n = int64(r.Intn(int(limit-off) + 1))
				default:
					off = x.hi
					n = int64(r.Intn(int(min(limit-off, 30)) + 1))
				}
				if n < 0 {
					n = 0
				}
				fin := r.Chance(1, 7) && off+n >= x.hi && x.final < 0 || x.final >= 0 && off+n == x.final && r.Bool()
				data := make([]byte, n)
				for k := range data {
					data[k] = glueByte(off + int64(k))
				}
				g.curOp = "stream-frame"
				err := x.str.handleStreamFrame(&wire.StreamFrame{StreamID: x.id, Offset: protocol.ByteCount(off), Data: data, Fin: fin}, now)
				g.log("r%d STREAM[%d,%d)fin=%v=>%v", i, off, off+n, fin, err != nil)
				// the property on the wire: error iff beyond what WE put on the wire
				beyond := off+n > x.hi && (off+n > x.adv || g.sumRecvHi()+off+n-x.hi > g.cAdv)
				if err != nil {
					if te, ok := err.(*qerr.TransportError); ok && te.ErrorCode == qerr.FlowControlError && !beyond {
						g.fail("flowglue/recv/rejects-within-advertised", fmt.Sprintf("receive stream %d: FLOW_CONTROL_ERROR for offset %d, advertised stream limit %d, connection %d/%d", i, off+n, x.adv, g.sumRecvHi(), g.cAdv))
					}
					dead = true
					break
				}
				if beyond {
					g.fail("flowglue/recv/accepts-beyond-advertised", fmt.Sprintf("receive stream %d accepted offset %d, advertised stream limit %d, connection %d/%d", i, off+n, x.adv, g.sumRecvHi(), g.cAdv))
				}
				for int64(len(x.got)) < off+n {
					x.got = append(x.got, false)
				}
				if !x.cancelled {
					for k := off; k < off+n; k++ {
						x.got[k] = true
					}
				}
				x.hi = max(x.hi, off+n)
				if fin {
					x.final = off + n
				}
			case c < 14: // Read, only when it cannot block
				avail := g.contiguous(x)
				atEOF := x.final >= 0 && x.appRead == x.final && !x.reset
				errNow := x.cancelled || (x.reset && x.appRead >= x.relSize)
				if avail == 0 && !atEOF && !errNow {
					continue
				}
				g.curOp = "read"
				g.readOp(i, r.Range(1, int(max(avail, 1))+3))
			case c < 16:
				g.curOp = "cancel-read"
				x.str.CancelRead(5)
				x.cancelled = true
				g.log("r%d.CancelRead()", i)
			case c < 18: // RESET_STREAM / RESET_STREAM_AT
				final := x.final
				if final < 0 {
					final = min(x.hi+int64(r.Range(0, 6)), limit)
					if r.Chance(1, 8) {
						final = limit + 1
					}
				}
				rel := int64(0)
				if resetAt && r.Bool() {
					rel = int64(r.Intn(int(final) + 1))
				}
				g.curOp = "reset-stream"
				if rel > 0 {
					g.curOp = "reset-stream-at"
				}
				err := x.str.handleResetStreamFrame(&wire.ResetStreamFrame{StreamID: x.id, ErrorCode: 3, FinalSize: protocol.ByteCount(final), ReliableSize: protocol.ByteCount(rel)}, now)
				g.log("r%d RESET_STREAM(final=%d,reliable=%d)=>%v", i, final, rel, err != nil)
				if err != nil {
					dead = true
					break
				}
				if !x.cancelled {
					if !x.reset || rel < x.relSize {
						x.relSize = rel
					}
					x.reset = true
				}
				x.hi = max(x.hi, final)
				x.final = final
			default:
				continue
			}
		}
		if dead {
			break // a flow-control / final-size error closes the connection
		}
		if !r.Chance(1, 3) { // the run loop packs control frames some time after they were queued
			g.drainControl()
		}
		g.checkRecv()
	}
	for _, k := range g.recv {
		if k.completedCalls > 0 {
			dist["recv-completed"]++
		}
	}
	dist["ops"] += len(g.human)
	dist["reset-frames"] += g.nReset
	dist["reset-held-back"] += g.nHeld
	dist["reset-sent-after-hold"] += g.nResetAfterHold
	if caseNo < 2 {
		fmt.Fprintf(w, "SAMPLE\t%s\n", strings.Join(g.human, " ; "))
	}
	// unblock nothing: every Read returned. Streams are garbage.
	_ = ackhandler.Frame{}
}

func (g *glueWorld) sumRecvHi() (s int64) {
	for _, r := range g.recv {
		s += r.hi
	}
	return
}

// VerifRunFlowGlue is the entry point used by the verifdrv unit "flowglue".
func VerifRunFlowGlue(w *bufio.Writer, seed uint64, n int) {
	// NewRng(seed) and NewRng(seed+1) produce the same Fork sequence shifted by one case;
	// re-seed from a mixed value so that different seeds give unrelated case sets.
	r := u.NewRng(u.NewRng(seed).U64() ^ 0xC04)
	dist := map[string]int{}
	for i := 0; i < n; i++ {
		runFlowGlueCase(w, r.Fork(), i, dist)
	}
	keys := make([]string, 0, len(dist))
	for k := range dist {
		keys = append(keys, k)
	}
	sort.Strings(keys)
	for _, k := range keys {
		fmt.Fprintf(w, "DIST\t%s\t%d\n", k, dist[k])
	}
	fmt.Fprintf(w, "DIST\tcases\t%d\n", n)
}
