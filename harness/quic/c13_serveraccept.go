//go:build verif

package quic

// C13 (unit ServerAccept): the server's packet acceptance in server.go — handlePacketImpl,
// handle0RTTPacket, cleanupZeroRTTQueues, handleInitialImpl and the senders behind the four
// bounded queues — driven on a bare baseServer (no run / runSendQueue goroutines: the harness
// calls handlePacketImpl and drains the queues itself, so queue-full drops are reachable and
// everything is deterministic). New connections are the real ones (newConnection), their run
// loops live in the caller's synctest bubble. Add-only.

import (
	"context"
	"errors"
	"net"
	"sync"
	"time"

	"github.com/refraction-networking/uquic/internal/handshake"
	"github.com/refraction-networking/uquic/internal/monotime"
	"github.com/refraction-networking/uquic/internal/protocol"
	"github.com/refraction-networking/uquic/internal/utils"
	"github.com/refraction-networking/uquic/internal/wire"
	"github.com/refraction-networking/uquic/qlog"
	"github.com/refraction-networking/uquic/qlogwriter"
	"github.com/refraction-networking/uquic/quicvarint"
	tls "github.com/refraction-networking/utls"
)

func VerifSAConsts() [][2]any {
	return [][2]any{
		{"saMinInitialPacketSize", int64(protocol.MinInitialPacketSize)},
		{"saMinUnknownVersionPacketSize", int64(protocol.MinUnknownVersionPacketSize)},
		{"saMax0RTTQueues", int64(protocol.Max0RTTQueues)},
		{"saMax0RTTQueueLen", int64(protocol.Max0RTTQueueLen)},
		{"saMax0RTTQueueingDuration", int64(protocol.Max0RTTQueueingDuration)},
		{"saMinConnectionIDLenInitial", int64(protocol.MinConnectionIDLenInitial)},
		{"saVNQueueCap", int64(cap(verifSAProbe().versionNegotiationQueue))},
		{"saInvalidTokenQueueCap", int64(cap(verifSAProbe().invalidTokenQueue))},
		{"saRefusedQueueCap", int64(cap(verifSAProbe().connectionRefusedQueue))},
		{"saRetryQueueCap", int64(cap(verifSAProbe().retryQueue))},
	}
}

var (
	verifSAProbeOnce sync.Once
	verifSAProbeSrv  *baseServer
)

// verifSAProbe builds a server through the real constructor only to read the queue capacities it chooses.
func verifSAProbe() *baseServer {
	verifSAProbeOnce.Do(func() {
		s := newServer(verifSARawConn{}, (*packetHandlerMap)(&Transport{}), &protocol.DefaultConnectionIDGenerator{ConnLen: 4}, newStatelessResetter(nil),
			nil, &tls.Config{}, populateConfig(&Config{}), nil, func() {}, TokenGeneratorKey{}, time.Hour, nil, false, false)
		close(s.errorChan) // run() returns and closes s.running, which stops runSendQueue
		verifSAProbeSrv = s
	})
	return verifSAProbeSrv
}

type verifSAWrite struct {
	Data []byte
	To   net.Addr
}

type verifSARawConn struct{ rec *verifSARec }

type verifSARec struct {
	mu     sync.Mutex
	writes []verifSAWrite
}

func (verifSARawConn) ReadPacket() (receivedPacket, error) { return receivedPacket{}, net.ErrClosed }
func (c verifSARawConn) WritePacket(b []byte, to net.Addr, _ []byte, _ uint16, _ protocol.ECN) (int, error) {
	if c.rec != nil {
		c.rec.mu.Lock()
		c.rec.writes = append(c.rec.writes, verifSAWrite{append([]byte{}, b...), to})
		c.rec.mu.Unlock()
	}
	return len(b), nil
}
func (verifSARawConn) LocalAddr() net.Addr             { return &net.UDPAddr{IP: net.IPv4(127, 0, 0, 1), Port: 443} }
func (verifSARawConn) SetReadDeadline(time.Time) error { return nil }
func (verifSARawConn) Close() error                    { return nil }
func (verifSARawConn) capabilities() connCapabilities  { return connCapabilities{} }

type VerifSAOpts struct {
	Versions      []Version
	DisableVN     bool
	AcceptEarly   bool
	VerifySrc     func(net.Addr) bool // nil: no callback
	RefuseAddr    func(net.Addr) bool // GetConfigForClient returns an error for these addresses
	MaxTokenAge   time.Duration
	HandshakeIdle time.Duration // of the server config: Retry tokens live twice as long
	TLS           *tls.Config
	NextCID       func() []byte // scripted connection ID generator: a non-nil result is the next generated ID
}

// VerifSANewConn: the arguments handleInitialImpl passed to newConn.
type VerifSANewConn struct {
	ODCID, ClientDCID, ClientSCID, SCID []byte
	HasRSCID                           bool
	RSCID                              []byte
	Verified                           bool
	RTT                                int64
	Version                            uint32
	conn                               *Conn
	rec                                *verifRecorder
}

type VerifSA struct {
	s     *baseServer
	tr    *Transport
	rec   *verifSARec
	Conns []*VerifSANewConn
	gen   *handshake.TokenGenerator
}

func VerifNewSA(o VerifSAOpts) *VerifSA {
	rec := &verifSARec{}
	tr := &Transport{handlers: map[protocol.ConnectionID]packetHandler{}, resetTokens: map[protocol.StatelessResetToken]packetHandler{},
		closeQueue: make(chan closePacket, 4), logger: utils.DefaultLogger}
	sa := &VerifSA{tr: tr, rec: rec}
	conf := populateConfig(&Config{Versions: o.Versions, HandshakeIdleTimeout: o.HandshakeIdle})
	conf.GetConfigForClient = func(ci *ClientInfo) (*Config, error) {
		if o.RefuseAddr != nil && o.RefuseAddr(ci.RemoteAddr) {
			return nil, errors.New("verif: refused")
		}
		// connections of the harness must outlive the token lifetimes that are being waited for
		return &Config{Versions: o.Versions, HandshakeIdleTimeout: 10000 * time.Hour, MaxIdleTimeout: 10000 * time.Hour, DisablePathMTUDiscovery: true,
			Tracer: func(context.Context, bool, ConnectionID) qlogwriter.Trace { return verifTrace{&verifRecorder{}} }}, nil
	}
	var key TokenGeneratorKey
	sa.gen = handshake.NewTokenGenerator(key)
	s := &baseServer{
		conn:                      verifSARawConn{rec},
		tr:                        (*packetHandlerMap)(tr),
		tlsConf:                   o.TLS,
		config:                    conf,
		tokenGenerator:            sa.gen,
		maxTokenAge:               o.MaxTokenAge,
		verifySourceAddress:       o.VerifySrc,
		connIDGenerator:           verifSAGen{next: o.NextCID},
		statelessResetter:         newStatelessResetter(nil),
		connQueue:                 make(chan *Conn, protocol.MaxAcceptQueueSize),
		errorChan:                 make(chan struct{}),
		stopAccepting:             make(chan struct{}),
		running:                   make(chan struct{}),
		receivedPackets:           make(chan receivedPacket, protocol.MaxServerUnprocessedPackets),
		versionNegotiationQueue:   make(chan receivedPacket, cap(verifSAProbe().versionNegotiationQueue)),
		invalidTokenQueue:         make(chan rejectedPacket, cap(verifSAProbe().invalidTokenQueue)),
		connectionRefusedQueue:    make(chan rejectedPacket, cap(verifSAProbe().connectionRefusedQueue)),
		retryQueue:                make(chan rejectedPacket, cap(verifSAProbe().retryQueue)),
		logger:                    utils.DefaultLogger,
		acceptEarlyConns:          o.AcceptEarly,
		disableVersionNegotiation: o.DisableVN,
		onClose:                   func() {},
	}
	if o.AcceptEarly {
		s.zeroRTTQueues = map[protocol.ConnectionID]*zeroRTTQueue{}
	}
	s.newConn = func(ctx context.Context, cancel context.CancelCauseFunc, sc sendConn, runner connRunner,
		origDestConnID protocol.ConnectionID, retrySrcConnID *protocol.ConnectionID,
		clientDestConnID, destConnID, srcConnID protocol.ConnectionID,
		g ConnectionIDGenerator, sr *statelessResetter, conf *Config, tlsConf *tls.Config, tg *handshake.TokenGenerator,
		validated bool, rtt time.Duration, qt qlogwriter.Trace, logger utils.Logger, v protocol.Version,
	) *wrappedConn {
		nc := &VerifSANewConn{ODCID: origDestConnID.Bytes(), ClientDCID: clientDestConnID.Bytes(), ClientSCID: destConnID.Bytes(), SCID: srcConnID.Bytes(),
			Verified: validated, RTT: int64(rtt), Version: uint32(v)}
		if retrySrcConnID != nil {
			nc.HasRSCID, nc.RSCID = true, retrySrcConnID.Bytes()
		}
		if vt, ok := qt.(verifTrace); ok {
			nc.rec = vt.r
		}
		wc := newConnection(ctx, cancel, sc, runner, origDestConnID, retrySrcConnID, clientDestConnID, destConnID, srcConnID, g, sr, conf, tlsConf, tg, validated, rtt, qt, logger, v)
		nc.conn = wc.Conn
		sa.Conns = append(sa.Conns, nc)
		return wc
	}
	sa.s = s
	return sa
}

// Datagrams handled so far by connection i (one qlog event per single-packet datagram).
func (sa *VerifSA) ConnDatagrams(i int) int {
	nc := sa.Conns[i]
	if nc.rec == nil {
		return -1
	}
	nc.rec.mu.Lock()
	defer nc.rec.mu.Unlock()
	n := 0
	for _, e := range nc.rec.evs {
		switch e.(type) {
		case qlog.PacketReceived, qlog.PacketDropped, qlog.PacketBuffered:
			n++
		}
	}
	return n
}

// ConnOf: index of the connection the routing map sends this connection ID to, -1 if none.
func (sa *VerifSA) ConnOf(cid []byte) int {
	h, ok := sa.s.tr.Get(protocol.ParseConnectionID(cid))
	if !ok {
		return -1
	}
	var hc *Conn
	switch x := h.(type) {
	case *wrappedConn:
		hc = x.Conn
	case *Conn:
		hc = x
	}
	for i, nc := range sa.Conns {
		if nc.conn == hc {
			return i
		}
	}
	return -2
}

type VerifSAState struct {
	Handlers    int
	ZeroRTT     map[string]int // connection ID -> queued packets
	NextCleanup int64
	VNQ, InvalidQ, RefusedQ, RetryQ int
}

func (sa *VerifSA) State() VerifSAState {
	st := VerifSAState{ZeroRTT: map[string]int{}, NextCleanup: int64(sa.s.nextZeroRTTCleanup),
		VNQ: len(sa.s.versionNegotiationQueue), InvalidQ: len(sa.s.invalidTokenQueue), RefusedQ: len(sa.s.connectionRefusedQueue), RetryQ: len(sa.s.retryQueue)}
	sa.tr.mutex.Lock()
	st.Handlers = len(sa.tr.handlers)
	sa.tr.mutex.Unlock()
	for id, q := range sa.s.zeroRTTQueues {
		st.ZeroRTT[string(id.Bytes())] = len(q.packets)
	}
	return st
}

// Handle: one datagram through handlePacketImpl (what baseServer.run does for each queued packet).
func (sa *VerifSA) Handle(data []byte, from net.Addr, rcvTime int64) (bufferInUse bool, panicked string) {
	defer func() {
		if r := recover(); r != nil {
			panicked = errors.New("panic").Error() + ": " + verifSAStr(r)
		}
	}()
	buf := getPacketBuffer()
	buf.Data = append(buf.Data[:0], data...)
	p := receivedPacket{buffer: buf, remoteAddr: from, rcvTime: monotime.Time(rcvTime), data: buf.Data}
	return sa.s.handlePacketImpl(p), ""
}

func verifSAStr(r any) string {
	if e, ok := r.(error); ok {
		return e.Error()
	}
	if s, ok := r.(string); ok {
		return s
	}
	return "?"
}

// Drain does the work of runSendQueue for everything queued, in the order VN, INVALID_TOKEN,
// CONNECTION_REFUSED, Retry, and returns the datagrams written per queue.
func (sa *VerifSA) Drain() (vn, invalid, refused, retry []verifSAWrite) {
	take := func() []verifSAWrite {
		sa.rec.mu.Lock()
		defer sa.rec.mu.Unlock()
		w := sa.rec.writes
		sa.rec.writes = nil
		return w
	}
	take()
	for len(sa.s.versionNegotiationQueue) > 0 {
		sa.s.maybeSendVersionNegotiationPacket(<-sa.s.versionNegotiationQueue)
	}
	vn = take()
	for len(sa.s.invalidTokenQueue) > 0 {
		sa.s.maybeSendInvalidToken(<-sa.s.invalidTokenQueue)
	}
	invalid = take()
	for len(sa.s.connectionRefusedQueue) > 0 {
		sa.s.sendConnectionRefused(<-sa.s.connectionRefusedQueue)
	}
	refused = take()
	for len(sa.s.retryQueue) > 0 {
		sa.s.sendRetry(<-sa.s.retryQueue)
	}
	retry = take()
	return
}

type VerifSAWrite = verifSAWrite

// Close ends all connections (their run loops and the handleNewConn goroutines).
func (sa *VerifSA) Close() {
	close(sa.s.errorChan)
	for _, nc := range sa.Conns {
		nc.conn.destroy(errors.New("verif: end of case"))
	}
	sa.s.handshakingCount.Wait()
}

// tokens of this server
func (sa *VerifSA) NewRetryToken(addr net.Addr, odcid, rscid []byte) []byte {
	t, _ := sa.gen.NewRetryToken(addr, protocol.ParseConnectionID(odcid), protocol.ParseConnectionID(rscid))
	return t
}
func (sa *VerifSA) NewToken(addr net.Addr, rtt time.Duration) []byte {
	t, _ := sa.gen.NewToken(addr, rtt)
	return t
}

type VerifSAToken struct {
	OK          bool
	IsRetry     bool
	ODCID, RSCID []byte
	AddrOK      bool
}

// DecodeToken decodes a token with the server's generator and checks it against an address.
func (sa *VerifSA) DecodeToken(tok []byte, addr net.Addr) VerifSAToken {
	t, err := sa.gen.DecodeToken(tok)
	if err != nil || t == nil {
		return VerifSAToken{}
	}
	return VerifSAToken{OK: true, IsRetry: t.IsRetryToken, ODCID: t.OriginalDestConnectionID.Bytes(), RSCID: t.RetrySrcConnectionID.Bytes(), AddrOK: t.ValidateRemoteAddr(addr)}
}

// VerifSAParseClose: opens a server Initial protected with the Initial keys of dcid and returns the
// error code of the CONNECTION_CLOSE frame in it (ok=false if it cannot be opened / has none).
func VerifSAParseClose(data []byte, keyCID []byte, v Version) (code uint64, ok bool) {
	hdr, pdata, _, err := wire.ParsePacket(data)
	if err != nil || hdr.Type != protocol.PacketTypeInitial {
		return 0, false
	}
	_, opener := handshake.NewInitialAEAD(protocol.ParseConnectionID(keyCID), protocol.PerspectiveClient, v)
	cp := append([]byte{}, pdata...)
	ext, err := unpackLongHeader(opener, hdr, cp)
	if err != nil {
		return 0, false
	}
	hl := ext.ParsedLen()
	pn := opener.DecodePacketNumber(ext.PacketNumber, ext.PacketNumberLen)
	pl, err := opener.Open(nil, cp[hl:], pn, cp[:hl])
	if err != nil {
		return 0, false
	}
	if len(pl) < 2 || pl[0] != 0x1c { // CONNECTION_CLOSE (transport)
		return 0, false
	}
	c, _, err := quicvarint.Parse(pl[1:])
	if err != nil {
		return 0, false
	}
	return c, true
}

// verifSAGen: the default generator unless the harness scripts the next ID (a custom ConnectionIDGenerator is allowed)
type verifSAGen struct{ next func() []byte }

func (g verifSAGen) ConnectionIDLen() int { return 4 }
func (g verifSAGen) GenerateConnectionID() (protocol.ConnectionID, error) {
	if g.next != nil {
		if b := g.next(); b != nil {
			return protocol.ParseConnectionID(b), nil
		}
	}
	return (&protocol.DefaultConnectionIDGenerator{ConnLen: 4}).GenerateConnectionID()
}

// CloseConn ends connection i the way a failed handshake does (destroy: its connection IDs leave the routing map).
func (sa *VerifSA) CloseConn(i int) { sa.Conns[i].conn.destroy(errors.New("verif: connection closed by the harness")) }

// RetireClientDCID retires the client-chosen DCID of connection i through the connection's own connection ID
// generator: the two calls the connection makes for it after the handshake (SetHandshakeComplete queues the ID and
// forgets it as "initial client DCID", RemoveRetiredConnIDs removes it from the routing map once due). Going through
// the generator matters: removing the key from the map directly would leave the generator believing it still owns the
// ID, and a later RemoveAll would remove the key a second time (by then possibly another connection's).
// Must be called while the connection's run loop is durably blocked (after synctest.Wait).
func (sa *VerifSA) RetireClientDCID(i int) {
	g := sa.Conns[i].conn.connIDGenerator
	g.SetHandshakeComplete(0)
	g.RemoveRetiredConnIDs(monotime.Now())
}
