//go:build verif

package quic

// C06 (ackglue): the connection's frame handling in front of the sent packet handler. A real Conn
// (constructed like the streamsglue unit does: newConnection / newClientConnection, never run, with or
// without an in-memory qlog trace) registers packets with its own sentPacketHandler and then handles
// 1-RTT payloads [ACK][other frames] through handleUnpackedShortHeaderPacket with the `log` closure
// handleShortHeaderPacket builds when a tracer is attached. Add-only.

import (
	"errors"
	"fmt"
	"time"

	"github.com/refraction-networking/uquic/internal/ackhandler"
	"github.com/refraction-networking/uquic/internal/monotime"
	"github.com/refraction-networking/uquic/internal/protocol"
	"github.com/refraction-networking/uquic/internal/qerr"
	"github.com/refraction-networking/uquic/internal/wire"
	"github.com/refraction-networking/uquic/qlog"
)

// VerifAGConn is a constructed, not running connection plus a wrapper around its sent packet handler.
type VerifAGConn struct {
	sg  *VerifSGConn
	SPH *ackhandler.VerifSentPH
	pn  protocol.PacketNumber
}

func NewVerifAGConn(client, tracer bool) (v *VerifAGConn, err error) {
	defer func() {
		if r := recover(); r != nil {
			err = fmt.Errorf("panic: %v", r)
		}
	}()
	sg, err := NewVerifSGConn(client, tracer, 100, 100)
	if err != nil {
		return nil, err
	}
	// the handshake is over: 1-RTT ACKs must not trigger handshake confirmation side effects of an unrun connection
	sg.c.handshakeConfirmed = true
	w := ackhandler.VerifSentPHWrap(sg.c.sentPacketHandler)
	if w == nil {
		return nil, errors.New("unexpected sent packet handler type")
	}
	return &VerifAGConn{sg: sg, SPH: w}, nil
}

func (v *VerifAGConn) HasTracer() bool { return v.sg.c.qlogger != nil }

// VerifAGFollower: the frame placed next to the ACK frame. 0 none, 1 STREAM on a new peer-initiated bidi stream,
// 2 PING, 3 MAX_DATA, 4 STREAM placed BEFORE the ACK frame.
const (
	VerifAGNone = iota
	VerifAGStream
	VerifAGPing
	VerifAGMaxData
	VerifAGStreamFirst
)

// Packet handles one 1-RTT payload [ACK ranges][follower] at time now. ranges are (smallest, largest), descending.
// Returns: class 0 no error, 1 PROTOCOL_VIOLATION, 7 any other error; number of frames given to the tracer (-1 without).
func (v *VerifAGConn) Packet(now int64, delay int64, ranges [][2]int64, follower int, streamID int64) (class int, logged int, msg string) {
	defer func() {
		if r := recover(); r != nil {
			class, msg = 7, fmt.Sprintf("panic: %v", r)
		}
	}()
	ack := &wire.AckFrame{DelayTime: time.Duration(delay)}
	for _, r := range ranges {
		ack.AckRanges = append(ack.AckRanges, wire.AckRange{Smallest: protocol.PacketNumber(r[0]), Largest: protocol.PacketNumber(r[1])})
	}
	stream := &wire.StreamFrame{StreamID: protocol.StreamID(streamID), Data: []byte("x"), DataLenPresent: true}
	var fs []wire.Frame
	switch follower {
	case VerifAGNone:
		fs = []wire.Frame{ack}
	case VerifAGStream:
		fs = []wire.Frame{ack, stream}
	case VerifAGPing:
		fs = []wire.Frame{ack, &wire.PingFrame{}}
	case VerifAGMaxData:
		fs = []wire.Frame{ack, &wire.MaxDataFrame{MaximumData: 1 << 21}}
	case VerifAGStreamFirst:
		fs = []wire.Frame{stream, ack}
	}
	var data []byte
	for _, f := range fs {
		var err error
		data, err = f.Append(data, protocol.Version1)
		if err != nil {
			return 7, -1, err.Error()
		}
	}
	c := v.sg.c
	destConnID := protocol.ParseConnectionID([]byte{4, 3, 2, 1})
	pn := v.pn
	v.pn++
	logged = -1
	var log func([]qlog.Frame)
	if c.qlogger != nil { // as in handleShortHeaderPacket
		log = func(qfs []qlog.Frame) {
			logged = len(qfs)
			c.qlogger.RecordEvent(qlog.PacketReceived{
				Header: qlog.PacketHeader{PacketType: qlog.PacketType1RTT, DestConnectionID: destConnID, PacketNumber: pn},
				Raw:    qlog.RawInfo{Length: len(data) + 10, PayloadLength: len(data)},
				Frames: qfs,
			})
		}
	}
	_, _, err := c.handleUnpackedShortHeaderPacket(destConnID, pn, data, protocol.ECNNon, monotime.Time(now), log)
	if err == nil {
		return 0, logged, ""
	}
	var te *qerr.TransportError
	if errors.As(err, &te) && te.ErrorCode == qerr.ProtocolViolation {
		return 1, logged, te.Error()
	}
	return 7, logged, err.Error()
}

// PeerStreams: number of peer-initiated bidirectional streams the streams map has opened so far.
func (v *VerifAGConn) PeerStreams() int64 {
	_, nextOpen, _, _ := v.sg.In(false)
	return nextOpen
}

func (v *VerifAGConn) Shutdown() { v.sg.Shutdown() }
