//go:build verif

package quic

// Overlay accessor of the C17 units (runloop, simclose). Add-only: it reads unexported
// fields of Conn / Transport, calls unexported *pure* helpers of the run loop and the
// designed close entry points (closeLocal / destroyImpl), nothing else.

import (
	"context"
	"errors"
	"fmt"
	"net"
	"reflect"
	"time"
	"unsafe"

	"github.com/refraction-networking/uquic/internal/flowcontrol"
	"github.com/refraction-networking/uquic/internal/monotime"
	"github.com/refraction-networking/uquic/internal/protocol"
	"github.com/refraction-networking/uquic/internal/qerr"
	"github.com/refraction-networking/uquic/internal/utils"
	"github.com/refraction-networking/uquic/internal/wire"
)

// VerifRunLoopSnap is the timer-relevant state of a connection at an observation point
// (all times are raw monotime values, 0 = unset as in the code; durations in ns).
type VerifRunLoopSnap struct {
	Now                  int64
	Client               bool
	HandshakeComplete    bool
	SentFirstPacket      bool
	IdleTimeout          int64
	KeepAliveInterval    int64
	CfgKeepAlivePeriod   int64
	CfgMaxIdleTimeout    int64
	CfgHandshakeIdle     int64
	CfgHandshakeTimeout  int64
	PeerMaxIdleTimeout   int64 // -1: no peer parameters yet
	PeerAdvertisedIdle   int64 // params.AdvertisedMaxIdleTimeout where the field exists, else 0
	OwnAdvertisedIdle    int64 // Conn.advertisedIdleTimeout where the field exists, else 0
	CreationTime         int64
	LastPacketReceived   int64
	FirstAckElicitingAft int64
	KeepAlivePingSent    bool
	Blocked              int
	PacingDeadline       int64
	PacingImmediate      bool
	PTO                  int64 // rttStats.PTO(true)
	PTONoAckDelay        int64 // rttStats.PTO(false)
	AckAlarm             int64
	LossTimeout          int64
	NextRetire           int64 // connIDGenerator.NextRetireTime(): earliest pending retirement of a connection ID, 0 = none
	// what the implementation's own helpers return on this state
	IdleStart     int64
	NextIdle      int64
	NextKeepAlive int64
	// deadline of c.timer (raw monotime), ok=false if it could not be read
	TimerDeadline   int64
	TimerDeadlineOK bool
	Closed          bool
}

// VerifRunLoopSnapshot must only be called while the connection's run loop is parked
// (inside a synctest bubble after synctest.Wait) or after it has terminated.
func VerifRunLoopSnapshot(c *Conn) VerifRunLoopSnap {
	s := VerifRunLoopSnap{
		Now:                  int64(monotime.Now()),
		Client:               c.perspective == protocol.PerspectiveClient,
		HandshakeComplete:    c.handshakeComplete,
		SentFirstPacket:      c.sentFirstPacket,
		IdleTimeout:          int64(c.idleTimeout),
		KeepAliveInterval:    int64(c.keepAliveInterval),
		CfgKeepAlivePeriod:   int64(c.config.KeepAlivePeriod),
		CfgMaxIdleTimeout:    int64(c.config.MaxIdleTimeout),
		CfgHandshakeIdle:     int64(c.config.HandshakeIdleTimeout),
		CfgHandshakeTimeout:  int64(c.config.handshakeTimeout()),
		PeerMaxIdleTimeout:   -1,
		CreationTime:         int64(c.creationTime),
		LastPacketReceived:   int64(c.lastPacketReceivedTime),
		FirstAckElicitingAft: int64(c.firstAckElicitingPacketAfterIdleSentTime),
		KeepAlivePingSent:    c.keepAlivePingSent,
		Blocked:              int(c.blocked),
		PacingDeadline:       int64(c.pacingDeadline),
		PacingImmediate:      c.pacingDeadline == deadlineSendImmediately,
		PTO:                  int64(c.rttStats.PTO(true)),
		PTONoAckDelay:        int64(c.rttStats.PTO(false)),
		AckAlarm:             int64(c.receivedPacketHandler.GetAlarmTimeout()),
		LossTimeout:          int64(c.sentPacketHandler.GetLossDetectionTimeout()),
		NextRetire:           int64(c.connIDGenerator.NextRetireTime()),
		IdleStart:            int64(c.idleTimeoutStartTime()),
		NextIdle:             int64(c.nextIdleTimeoutTime()),
		NextKeepAlive:        int64(c.nextKeepAliveTime()),
		Closed:               c.closeErr.Load() != nil,
	}
	// (read by name so that the harness also compiles against a tree without that field)
	if f := reflect.ValueOf(c).Elem().FieldByName("advertisedIdleTimeout"); f.IsValid() {
		s.OwnAdvertisedIdle = f.Int()
	}
	if c.peerParams != nil {
		s.PeerMaxIdleTimeout = int64(c.peerParams.MaxIdleTimeout)
		// (read by name so that the harness also compiles against a tree without that field)
		if f := reflect.ValueOf(c.peerParams).Elem().FieldByName("AdvertisedMaxIdleTimeout"); f.IsValid() {
			s.PeerAdvertisedIdle = f.Int()
		}
	}
	if c.timer != nil {
		if w, ok := verifTimerWhen(c.timer); ok {
			probe := time.NewTimer(time.Hour)
			pw, ok2 := verifTimerWhen(probe)
			probe.Stop()
			if ok2 {
				nowNano := pw - int64(time.Hour)
				s.TimerDeadline = s.Now + (w - nowNano)
				s.TimerDeadlineOK = true
			}
		}
	}
	return s
}

// verifTimerWhen reads the expiry of a time.Timer. The offset of the runtime timer's
// `when` word is found by self-calibration (two probe timers whose expiries differ by a
// known amount), so a different runtime layout makes it report !ok instead of garbage.
var verifWhenOff = -1

func verifWords(t *time.Timer) [16]int64 { return *(*[16]int64)(unsafe.Pointer(t)) }

func verifCalibrate() {
	verifWhenOff = -2
	const d1, d2 = 1000 * time.Hour, 1000*time.Hour + 123456789*time.Nanosecond
	t1 := time.NewTimer(d1)
	t2 := time.NewTimer(d2)
	w1, w2 := verifWords(t1), verifWords(t2)
	t1.Stop()
	t2.Stop()
	cand := -2
	for i := 2; i < 10; i++ { // beyond the channel pointer and the init flag
		if diff := w2[i] - w1[i]; diff >= int64(d2-d1) && diff < int64(d2-d1)+int64(time.Millisecond) && w1[i] > int64(d1) {
			if cand >= 0 {
				return // ambiguous
			}
			cand = i
		}
	}
	verifWhenOff = cand
}

func verifTimerWhen(t *time.Timer) (int64, bool) {
	if verifWhenOff == -1 {
		verifCalibrate()
	}
	if verifWhenOff < 0 {
		return 0, false
	}
	return verifWords(t)[verifWhenOff], true
}

// VerifConnIDs returns every connection ID under which the connection is (or was)
// registered in its transport: the client's initial destination ID (server side), the
// active source IDs and those queued for retirement.
func VerifConnIDs(c *Conn) []string {
	g := c.connIDGenerator
	var out []string
	if g.initialClientDestConnID != nil {
		out = append(out, string(g.initialClientDestConnID.Bytes()))
	}
	for _, id := range g.activeSrcConnIDs {
		out = append(out, string(id.Bytes()))
	}
	for _, r := range g.connIDsToRetire {
		out = append(out, string(r.connID.Bytes()))
	}
	return out
}

// VerifRLRouting classifies the transport's routing table: number of entries per handler
// kind ("conn", "closedLocal", "closedRemote", "other"), reset tokens, and the kind
// registered for each of the given connection IDs ("none" if absent).
func VerifRLRouting(t *Transport, ids []string) (counts map[string]int, resetTokens int, kinds []string) {
	counts = map[string]int{}
	kind := func(h packetHandler) string {
		switch h.(type) {
		case *wrappedConn, *Conn:
			return "conn"
		case *closedLocalConn:
			return "closedLocal"
		case *closedRemoteConn:
			return "closedRemote"
		}
		return fmt.Sprintf("other:%T", h)
	}
	t.mutex.Lock()
	defer t.mutex.Unlock()
	for _, h := range t.handlers {
		counts[kind(h)]++
	}
	resetTokens = len(t.resetTokens)
	for _, id := range ids {
		cid := protocol.ParseConnectionID([]byte(id))
		if h, ok := t.handlers[cid]; ok {
			kinds = append(kinds, kind(h))
		} else {
			kinds = append(kinds, "none")
		}
	}
	return
}

// Close causes that can be injected through the designed entry points.
const (
	VerifErrNil = iota
	VerifErrApp
	VerifErrTransport
	VerifErrAppRemote
	VerifErrTransportRemote
	VerifErrIdle
	VerifErrHandshakeTimeout
	VerifErrStatelessReset
	VerifErrVersionNegotiation
	VerifErrOther        // a non-QUIC error
	VerifErrWrappedApp   // fmt.Errorf("...: %w", &ApplicationError{})
	VerifErrWrappedTrans // fmt.Errorf("...: %w", &TransportError{})
	VerifErrNumKinds
)

func VerifMakeErr(kind int, code uint64) error {
	switch kind {
	case VerifErrNil:
		return nil
	case VerifErrApp:
		return &qerr.ApplicationError{ErrorCode: qerr.ApplicationErrorCode(code), ErrorMessage: "verif"}
	case VerifErrTransport:
		return &qerr.TransportError{ErrorCode: qerr.TransportErrorCode(code), ErrorMessage: "verif"}
	case VerifErrAppRemote:
		return &qerr.ApplicationError{Remote: true, ErrorCode: qerr.ApplicationErrorCode(code)}
	case VerifErrTransportRemote:
		return &qerr.TransportError{Remote: true, ErrorCode: qerr.TransportErrorCode(code)}
	case VerifErrIdle:
		return qerr.ErrIdleTimeout
	case VerifErrHandshakeTimeout:
		return qerr.ErrHandshakeTimeout
	case VerifErrStatelessReset:
		return &StatelessResetError{}
	case VerifErrVersionNegotiation:
		return &VersionNegotiationError{}
	case VerifErrOther:
		return errors.New("verif: some non-QUIC error")
	case VerifErrWrappedApp:
		return fmt.Errorf("verif wrap: %w", &qerr.ApplicationError{ErrorCode: qerr.ApplicationErrorCode(code)})
	case VerifErrWrappedTrans:
		return fmt.Errorf("verif wrap: %w", &qerr.TransportError{ErrorCode: qerr.TransportErrorCode(code)})
	}
	panic("bad kind")
}

// VerifRequestClose issues one close request exactly like closeLocal / destroyImpl do
// (it does not wait for the run loop).
func VerifRequestClose(c *Conn, e error, immediate bool) {
	if immediate {
		c.destroyImpl(e)
	} else {
		c.closeLocal(e)
	}
}

// VerifRecordedCloseErr returns the error stored by the first close request (after the
// run loop has processed it: the mapped error), and whether it is marked immediate.
func VerifRecordedCloseErr(c *Conn) (error, bool, bool) {
	ce := c.closeErr.Load()
	if ce == nil {
		return nil, false, false
	}
	return ce.err, ce.immediate, true
}

// VerifClosedLocalReplies feeds n packets to a fresh closedLocalConn whose counter was
// preset to start, and reports for each whether the CONNECTION_CLOSE was retransmitted.
func VerifClosedLocalReplies(start uint32, n int) []bool {
	sent := 0
	h := newClosedLocalConn(func(net.Addr, packetInfo) { sent++ }, utils.DefaultLogger)
	h.(*closedLocalConn).counter.Store(start)
	out := make([]bool, n)
	for i := 0; i < n; i++ {
		before := sent
		h.handlePacket(receivedPacket{})
		out[i] = sent == before+1
	}
	return out
}

// VerifRunLoopConsts: constants the RunLoop model takes from the code.
func VerifRunLoopConsts() [][2]any {
	return [][2]any{
		{"rl_blockModeNone", int64(blockModeNone)},
		{"rl_blockModeCongestionLimited", int64(blockModeCongestionLimited)},
		{"rl_blockModeHardBlocked", int64(blockModeHardBlocked)},
		{"rl_InternalError", int64(qerr.InternalError)},
		{"rl_DefaultHandshakeIdleTimeout", int64(protocol.DefaultHandshakeIdleTimeout)},
		{"rl_DefaultIdleTimeout", int64(protocol.DefaultIdleTimeout)},
		{"rl_MinRemoteIdleTimeout", int64(protocol.MinRemoteIdleTimeout)},
		{"rl_ApplicationErrorErrorCode", int64(qerr.ApplicationErrorErrorCode)},
	}
}

// VerifTransportConns returns the live connections registered in the transport's routing
// table (also those still handshaking, which the API has not handed out yet).
func VerifTransportConns(t *Transport) []*Conn {
	t.mutex.Lock()
	defer t.mutex.Unlock()
	seen := map[*Conn]bool{}
	var out []*Conn
	for _, h := range t.handlers {
		var c *Conn
		switch x := h.(type) {
		case *wrappedConn:
			c = x.Conn
		case *Conn:
			c = x
		}
		if c != nil && !seen[c] {
			seen[c] = true
			out = append(out, c)
		}
	}
	return out
}

// VerifRunLoopSnapshotNow is monotime.Now() as a raw integer.
func VerifRunLoopSnapshotNow() int64 { return int64(monotime.Now()) }

// VerifQueueHandshakeDone queues a HANDSHAKE_DONE frame for sending. Sent by a client it
// is a protocol violation the server must answer with a fatal transport error.
func VerifQueueHandshakeDone(c *Conn) { c.queueControlFrame(&wire.HandshakeDoneFrame{}) }

// ---- fan-out at unit level: a real streamsMap + datagramQueue, frames injected, then exactly the two calls of
// Conn.handleCloseError (streamsMap.CloseWithError, datagramQueue.CloseWithError)

type verifRLSender struct{}

func (verifRLSender) onHasConnectionData()                                                {}
func (verifRLSender) onHasStreamData(protocol.StreamID, *SendStream)                      {}
func (verifRLSender) onHasStreamControlFrame(protocol.StreamID, streamControlFrameGetter) {}
func (verifRLSender) onStreamCompleted(protocol.StreamID)                                 {}

// VerifRLFanout is the API-object side of a (server) connection without the connection.
type VerifRLFanout struct {
	m  *streamsMap
	dq *datagramQueue
}

func NewVerifRLFanout(maxIncoming uint64) *VerifRLFanout {
	rtt := utils.NewRTTStats()
	cfc := flowcontrol.NewConnectionFlowController(1<<20, 1<<20, func(protocol.ByteCount) bool { return true }, rtt, utils.DefaultLogger)
	v := &VerifRLFanout{}
	v.m = newStreamsMap(context.Background(), verifRLSender{}, func(wire.Frame) {},
		func(id protocol.StreamID) flowcontrol.StreamFlowController {
			return flowcontrol.NewStreamFlowController(id, cfc, 1<<16, 1<<16, 1<<16, rtt, utils.DefaultLogger)
		},
		maxIncoming, maxIncoming, protocol.PerspectiveServer)
	v.dq = newDatagramQueue(func() {}, utils.DefaultLogger)
	return v
}

func (v *VerifRLFanout) StreamFrame(id, off int64, data []byte, fin bool) error {
	return v.m.HandleStreamFrame(&wire.StreamFrame{StreamID: protocol.StreamID(id), Offset: protocol.ByteCount(off), Data: data, Fin: fin}, monotime.Now())
}

func (v *VerifRLFanout) ResetStream(id, final, reliable int64, code uint64) error {
	return v.m.HandleResetStreamFrame(&wire.ResetStreamFrame{StreamID: protocol.StreamID(id), ErrorCode: qerr.StreamErrorCode(code),
		FinalSize: protocol.ByteCount(final), ReliableSize: protocol.ByteCount(reliable)}, monotime.Now())
}

func (v *VerifRLFanout) StopSending(id int64, code uint64) error {
	return v.m.HandleStopSendingFrame(&wire.StopSendingFrame{StreamID: protocol.StreamID(id), ErrorCode: qerr.StreamErrorCode(code)})
}

func (v *VerifRLFanout) AcceptStream(ctx context.Context) (*Stream, error)   { return v.m.AcceptStream(ctx) }
func (v *VerifRLFanout) OpenStreamSync(ctx context.Context) (*Stream, error) { return v.m.OpenStreamSync(ctx) }
func (v *VerifRLFanout) ReceiveDatagram(ctx context.Context) ([]byte, error) { return v.dq.Receive(ctx) }

// CloseWithError: what handleCloseError does to the API objects.
func (v *VerifRLFanout) CloseWithError(e error) {
	v.m.CloseWithError(e)
	v.dq.CloseWithError(e)
}
