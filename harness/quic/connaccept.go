//go:build verif

package quic

// Verification harness for C13 (unit ConnAccept): a real *Conn (client or server), built by the
// unexported constructors, whose packet handling (handleOnePacket, handleTransportParameters)
// is driven directly with crafted datagrams; no run loop, no network. Add-only: reads
// unexported fields and calls unexported functions, changes nothing.

import (
	"context"
	"encoding/binary"
	"errors"
	"fmt"
	"net"
	"reflect"
	"sync"
	"time"

	"github.com/refraction-networking/uquic/internal/handshake"
	"github.com/refraction-networking/uquic/internal/monotime"
	"github.com/refraction-networking/uquic/internal/protocol"
	"github.com/refraction-networking/uquic/internal/qerr"
	"github.com/refraction-networking/uquic/internal/utils"
	"github.com/refraction-networking/uquic/internal/wire"
	"github.com/refraction-networking/uquic/qlog"
	"github.com/refraction-networking/uquic/qlogwriter"
	tls "github.com/refraction-networking/utls"
)

// ---- fakes ----

type verifSendConn struct {
	mu     sync.Mutex
	local  net.Addr
	remote net.Addr
	sent   [][]byte
}

func (s *verifSendConn) Write(b []byte, _ uint16, _ protocol.ECN) error {
	s.mu.Lock()
	s.sent = append(s.sent, append([]byte(nil), b...))
	s.mu.Unlock()
	return nil
}
func (s *verifSendConn) WriteTo(b []byte, _ net.Addr) error { return s.Write(b, 0, 0) }
func (s *verifSendConn) Close() error                       { return nil }
func (s *verifSendConn) LocalAddr() net.Addr                { return s.local }
func (s *verifSendConn) RemoteAddr() net.Addr               { return s.remote }
func (s *verifSendConn) ChangeRemoteAddr(net.Addr, packetInfo) {}
func (s *verifSendConn) capabilities() connCapabilities     { return connCapabilities{} }

type verifRunner struct{}

func (verifRunner) Add(protocol.ConnectionID, packetHandler) bool                      { return true }
func (verifRunner) Remove(protocol.ConnectionID)                                       {}
func (verifRunner) ReplaceWithClosed([]protocol.ConnectionID, []byte, time.Duration)   {}
func (verifRunner) AddResetToken(protocol.StatelessResetToken, packetHandler)          {}
func (verifRunner) RemoveResetToken(protocol.StatelessResetToken)                      {}

type verifRecorder struct {
	mu  sync.Mutex
	evs []qlogwriter.Event
}

func (r *verifRecorder) RecordEvent(e qlogwriter.Event) {
	r.mu.Lock()
	r.evs = append(r.evs, e)
	r.mu.Unlock()
}
func (r *verifRecorder) Close() error { return nil }
func (r *verifRecorder) take() []qlogwriter.Event {
	r.mu.Lock()
	defer r.mu.Unlock()
	e := r.evs
	r.evs = nil
	return e
}

type verifTrace struct{ r *verifRecorder }

func (t verifTrace) AddProducer() qlogwriter.Recorder { return t.r }
func (t verifTrace) SupportsSchemas(string) bool       { return true }

// ---- the connection under test ----

type VerifCAOpts struct {
	Server        bool
	DCID          []byte // client: the DCID of the first Initial; server: the DCID the client chose (original DCID)
	SCID          []byte // own source connection ID
	PeerSCID      []byte // server only: the client's source connection ID
	Version       Version
	Versions      []Version
	HasNegotiated bool
	Spec          *QUICSpec   // client only: build with newUClientConnection
	TLS           *tls.Config // server: needs a certificate
	HandshakeIdle time.Duration
	KeepAlive     time.Duration
}

type VerifCA struct {
	c    *Conn
	rec  *verifRecorder
	sc   *verifSendConn
	conf *Config
}

type VerifCAState struct {
	Client       bool
	Version      uint32
	RcvFirst     bool
	RcvRetry     bool
	VerNeg       bool
	HsDCID       []byte
	OrigDCID     []byte
	HasRetrySCID bool
	RetrySCID    []byte
	DCID         []byte // connIDManager's active connection ID
	Token        []byte // token the packer puts into Initial packets
	NUndec       int
}

func VerifNewCA(o VerifCAOpts) (ca *VerifCA, err error) {
	defer func() {
		if r := recover(); r != nil {
			err = fmt.Errorf("panic constructing connection: %v", r)
		}
	}()
	conf := &Config{Versions: o.Versions, DisablePathMTUDiscovery: true, HandshakeIdleTimeout: o.HandshakeIdle, KeepAlivePeriod: o.KeepAlive}
	if err := validateConfig(conf); err != nil {
		return nil, err
	}
	conf = populateConfig(conf)
	rec := &verifRecorder{}
	sc := &verifSendConn{local: &net.UDPAddr{IP: net.IPv4(127, 0, 0, 1), Port: 1234}, remote: &net.UDPAddr{IP: net.IPv4(1, 2, 3, 4), Port: 4321}}
	var wc *wrappedConn
	tlsConf := o.TLS
	if tlsConf == nil {
		tlsConf = &tls.Config{ServerName: "localhost", NextProtos: []string{"verif"}}
	}
	switch {
	case o.Server:
		ctx, cancel := context.WithCancelCause(context.Background())
		tg := handshake.NewTokenGenerator(handshake.TokenProtectorKey{})
		wc = newConnection(ctx, cancel, sc, verifRunner{},
			protocol.ParseConnectionID(o.DCID), nil, protocol.ParseConnectionID(o.DCID),
			protocol.ParseConnectionID(o.PeerSCID), protocol.ParseConnectionID(o.SCID),
			&protocol.DefaultConnectionIDGenerator{ConnLen: len(o.SCID)}, newStatelessResetter(nil), conf, tlsConf, tg,
			false, 100*time.Millisecond, verifTrace{rec}, utils.DefaultLogger, o.Version)
	case o.Spec != nil:
		o.Spec.UpdateConfig(conf)
		wc = newUClientConnection(context.Background(), sc, verifRunner{},
			protocol.ParseConnectionID(o.DCID), protocol.ParseConnectionID(o.SCID),
			&protocol.DefaultConnectionIDGenerator{ConnLen: len(o.SCID)}, newStatelessResetter(nil), conf, tlsConf,
			0, false, o.HasNegotiated, verifTrace{rec}, utils.DefaultLogger, o.Version, o.Spec)
	default:
		wc = newClientConnection(context.Background(), sc, verifRunner{},
			protocol.ParseConnectionID(o.DCID), protocol.ParseConnectionID(o.SCID),
			&protocol.DefaultConnectionIDGenerator{ConnLen: len(o.SCID)}, newStatelessResetter(nil), conf, tlsConf,
			0, false, o.HasNegotiated, verifTrace{rec}, utils.DefaultLogger, o.Version)
	}
	rec.take()
	return &VerifCA{c: wc.Conn, rec: rec, sc: sc, conf: conf}, nil
}

func (v *VerifCA) Conn() *Conn { return v.c }

func verifPackerToken(p packer) []byte {
	switch pp := p.(type) {
	case *packetPacker:
		return pp.token
	case *uPacketPacker:
		return pp.packetPacker.token
	}
	return nil
}

// verifBoolField reads an unexported bool field of *Conn that the harness only observes, by name,
// so that a refactoring of the bookkeeping (field removed / renamed) does not break the harness
// build; def is what is reported if the field does not exist.
func verifBoolField(c *Conn, name string, def bool) bool {
	f := reflect.ValueOf(c).Elem().FieldByName(name)
	if !f.IsValid() || f.Kind() != reflect.Bool {
		return def
	}
	return f.Bool()
}

func (v *VerifCA) State() VerifCAState { return VerifConnAcceptState(v.c) }

// VerifConnAcceptState reads the pre-authentication decision state of a connection.
// Only safe when the connection's run loop is not concurrently mutating it (unit harness),
// or for a racy best-effort look from a simulation after the connection finished.
func VerifConnAcceptState(c *Conn) VerifCAState {
	s := VerifCAState{
		Client:   c.perspective == protocol.PerspectiveClient,
		Version:  uint32(c.version),
		RcvFirst: verifBoolField(c, "receivedFirstPacket", false),
		// "a Retry was accepted": the bookkeeping flag if the struct has one, else what the code acts on
		RcvRetry: verifBoolField(c, "receivedRetry", c.retrySrcConnID != nil),
		VerNeg:   verifBoolField(c, "versionNegotiated", false),
		HsDCID:   append([]byte{}, c.handshakeDestConnID.Bytes()...),
		OrigDCID: append([]byte{}, c.origDestConnID.Bytes()...),
		Token:    append([]byte{}, verifPackerToken(c.packer)...),
		NUndec:   len(c.undecryptablePackets),
	}
	if c.retrySrcConnID != nil {
		s.HasRetrySCID = true
		s.RetrySCID = append([]byte{}, c.retrySrcConnID.Bytes()...)
	}
	func() {
		defer func() { _ = recover() }() // connIDManager.Get asserts "not closed"
		s.DCID = append([]byte{}, c.connIDManager.Get().Bytes()...)
	}()
	return s
}

type VerifCAResult struct {
	Processed bool
	Err       string   // "" | "recreate:<version>" | "remote_close" | "transport:<code>" | "other:<text>" | "panic:<text>"
	Closed    string   // what destroyImpl/closeLocal stored, same classes plus "vn_error"
	Events    []string // "dropped:<trigger>" | "buffered" | "received:<type>" | "vn_received"
}

func verifCAErrClass(err error) string {
	if err == nil {
		return ""
	}
	var rc *errCloseForRecreating
	if errors.As(err, &rc) {
		return fmt.Sprintf("recreate:%d", uint32(rc.nextVersion))
	}
	var vn *VersionNegotiationError
	if errors.As(err, &vn) {
		return "vn_error"
	}
	var te *qerr.TransportError
	if errors.As(err, &te) {
		if te.Remote {
			return "remote_close"
		}
		return fmt.Sprintf("transport:%d", uint64(te.ErrorCode))
	}
	var ae *qerr.ApplicationError
	if errors.As(err, &ae) && ae.Remote {
		return "remote_close"
	}
	return "other:" + err.Error()
}

func (v *VerifCA) events() []string {
	var out []string
	for _, e := range v.rec.take() {
		switch ev := e.(type) {
		case qlog.PacketDropped:
			out = append(out, "dropped:"+string(ev.Trigger))
		case qlog.PacketBuffered:
			out = append(out, "buffered")
		case qlog.PacketReceived:
			out = append(out, "received:"+string(ev.Header.PacketType))
		case qlog.VersionNegotiationReceived:
			out = append(out, "vn_received")
		}
	}
	return out
}

// Handle feeds one datagram to the connection exactly as the run loop would (handleOnePacket).
func (v *VerifCA) Handle(data []byte) (res VerifCAResult) {
	defer func() {
		if r := recover(); r != nil {
			res.Err = fmt.Sprintf("panic:%v", r)
		}
	}()
	buf := getPacketBuffer()
	buf.Data = append(buf.Data[:0], data...)
	p := receivedPacket{buffer: buf, remoteAddr: v.sc.remote, rcvTime: monotime.Now(), data: buf.Data}
	processed, err := v.c.handleOnePacket(p, 0)
	res.Processed = processed
	res.Err = verifCAErrClass(err)
	if ce := v.c.closeErr.Load(); ce != nil {
		res.Closed = verifCAErrClass(ce.err)
		if res.Closed == "" {
			res.Closed = "nil"
		}
	}
	res.Events = v.events()
	return res
}

// Run executes the real run loop (blocks until the connection is closed).
func (v *VerifCA) Run() error { return v.c.run() }

// Enqueue hands a datagram to the connection the way the transport does (handlePacket).
func (v *VerifCA) Enqueue(data []byte) {
	buf := getPacketBuffer()
	buf.Data = append(buf.Data[:0], data...)
	v.c.handlePacket(receivedPacket{buffer: buf, remoteAddr: v.sc.remote, rcvTime: monotime.Now(), data: buf.Data})
}

func (v *VerifCA) Destroy() { v.c.destroyImpl(errors.New("verif: harness gave up")) }

// HandleBatch queues the datagrams the way the transport does (handlePacket) and then lets the
// connection work through its receive queue once, exactly as the run loop does (handlePackets).
// remaining = datagrams still queued afterwards.
func (v *VerifCA) HandleBatch(datagrams [][]byte) (res VerifCAResult, remaining int) {
	defer func() {
		if r := recover(); r != nil {
			res.Err = fmt.Sprintf("panic:%v", r)
		}
	}()
	for _, d := range datagrams {
		v.Enqueue(d)
	}
	processed, err := v.c.handlePackets()
	res.Processed = processed
	res.Err = verifCAErrClass(err)
	if ce := v.c.closeErr.Load(); ce != nil {
		res.Closed = verifCAErrClass(ce.err)
		if res.Closed == "" {
			res.Closed = "nil"
		}
	}
	res.Events = v.events()
	v.c.receivedPacketMx.Lock()
	remaining = v.c.receivedPackets.Len()
	v.c.receivedPacketMx.Unlock()
	return res, remaining
}

// HandleTP runs the peer's transport parameters (only the connection-ID fields matter here)
// through handleTransportParameters, as the TLS stack would on EventReceivedTransportParameters.
func (v *VerifCA) HandleTP(iscid, odcid []byte, hasRSCID bool, rscid []byte) (cls string) {
	defer func() {
		if r := recover(); r != nil {
			cls = fmt.Sprintf("panic:%v", r)
		}
	}()
	params := &wire.TransportParameters{
		InitialSourceConnectionID:       protocol.ParseConnectionID(iscid),
		OriginalDestinationConnectionID: protocol.ParseConnectionID(odcid),
		MaxUDPPayloadSize:               protocol.MaxPacketBufferSize,
		ActiveConnectionIDLimit:         2,
		MaxAckDelay:                     protocol.DefaultMaxAckDelay,
		AckDelayExponent:                protocol.DefaultAckDelayExponent,
	}
	if hasRSCID {
		r := protocol.ParseConnectionID(rscid)
		params.RetrySourceConnectionID = &r
	}
	err := v.c.handleTransportParameters(params)
	v.rec.take()
	return verifCAErrClass(err)
}

// DropInitialKeys performs what the connection does when it sends its first Handshake packet
// (client) / receives the first Handshake packet (server).
func (v *VerifCA) DropInitialKeys() (cls string) {
	defer func() {
		if r := recover(); r != nil {
			cls = fmt.Sprintf("panic:%v", r)
		}
	}()
	err := v.c.dropEncryptionLevel(protocol.EncryptionInitial, monotime.Now())
	v.rec.take()
	return verifCAErrClass(err)
}

// ---- packet crafting (attacker / peer side) ----

// VerifRetryTag exports handshake.GetRetryIntegrityTag.
func VerifRetryTag(body, odcid []byte, v Version) []byte {
	t := handshake.GetRetryIntegrityTag(body, protocol.ParseConnectionID(odcid), v)
	return append([]byte{}, t[:]...)
}

// VerifRetryBody is the Retry packet without its 16-byte integrity tag.
func VerifRetryBody(v Version, dcid, scid, token []byte) ([]byte, error) {
	hdr := &wire.ExtendedHeader{Header: wire.Header{
		Type: protocol.PacketTypeRetry, Version: v,
		DestConnectionID: protocol.ParseConnectionID(dcid), SrcConnectionID: protocol.ParseConnectionID(scid), Token: token,
	}}
	return hdr.Append(nil, v)
}

// VerifVNPacket composes a Version Negotiation packet without greasing.
func VerifVNPacket(first byte, dcid, scid []byte, versions []uint32) []byte {
	b := []byte{first | 0x80, 0, 0, 0, 0, byte(len(dcid))}
	b = append(b, dcid...)
	b = append(b, byte(len(scid)))
	b = append(b, scid...)
	for _, v := range versions {
		b = binary.BigEndian.AppendUint32(b, v)
	}
	return b
}

// VerifLongPacket builds a protected Initial / Handshake / 0-RTT packet whose protection keys are the
// Initial keys derived from keyCID for the given sender perspective (the only keys an attacker
// who sees the wire can compute).
func VerifLongPacket(typ int, v Version, dcid, scid, token, keyCID []byte, senderIsClient bool, pn int64, payload []byte) ([]byte, error) {
	var t protocol.PacketType
	switch typ {
	case 0:
		t = protocol.PacketTypeInitial
	case 1:
		t = protocol.PacketType0RTT
	case 2:
		t = protocol.PacketTypeHandshake
	default:
		return nil, errors.New("bad type")
	}
	const pnLen = protocol.PacketNumberLen2
	for len(payload) < 24 {
		payload = append(payload, 0) // PADDING
	}
	pers := protocol.PerspectiveServer
	if senderIsClient {
		pers = protocol.PerspectiveClient
	}
	sealer, _ := handshake.NewInitialAEAD(protocol.ParseConnectionID(keyCID), pers, v)
	hdr := &wire.ExtendedHeader{
		Header: wire.Header{Type: t, Version: v, DestConnectionID: protocol.ParseConnectionID(dcid), SrcConnectionID: protocol.ParseConnectionID(scid),
			Token: token, Length: protocol.ByteCount(int(pnLen) + len(payload) + sealer.Overhead())},
		PacketNumber: protocol.PacketNumber(pn), PacketNumberLen: pnLen,
	}
	raw, err := hdr.Append(nil, v)
	if err != nil {
		return nil, err
	}
	off := len(raw)
	raw = append(raw, payload...)
	raw = sealer.Seal(raw[:off], raw[off:], protocol.PacketNumber(pn), raw[:off])
	pnOff := off - int(pnLen)
	sealer.EncryptHeader(raw[pnOff+4:pnOff+4+16], &raw[0], raw[pnOff:off])
	return raw, nil
}

// VerifFramePing / VerifFrameClose: frame payloads for crafted packets.
func VerifFramePing() []byte { return []byte{0x01} }
func VerifFrameClose(code uint64, reason string) []byte {
	f := &wire.ConnectionCloseFrame{ErrorCode: code, ReasonPhrase: reason}
	b, _ := f.Append(nil, protocol.Version1)
	return b
}

// VerifTimes: the timer-relevant fields (nanoseconds of monotime) for the handshake deadline check.
type VerifCATimes struct {
	Creation, LastRcv, FirstAckElicitingAfterIdle int64
	HandshakeComplete, KeepAlivePingSent           bool
	HandshakeIdle, HandshakeTimeout, KeepAlive     int64
	KeepAliveInterval                              int64 // max(keepAliveInterval, 3/2 PTO) as nextKeepAliveTime computes it
}

func VerifConnTimes(c *Conn) VerifCATimes {
	return VerifCATimes{
		Creation: int64(c.creationTime), LastRcv: int64(c.lastPacketReceivedTime), FirstAckElicitingAfterIdle: int64(c.firstAckElicitingPacketAfterIdleSentTime),
		HandshakeComplete: c.handshakeComplete, KeepAlivePingSent: c.keepAlivePingSent,
		HandshakeIdle: int64(c.config.HandshakeIdleTimeout), HandshakeTimeout: int64(c.config.handshakeTimeout()), KeepAlive: int64(c.config.KeepAlivePeriod),
		KeepAliveInterval: int64(max(c.keepAliveInterval, c.rttStats.PTO(true)*3/2)),
	}
}

func VerifMonoNow() int64 { return int64(monotime.Now()) }

func VerifConnAcceptConsts() [][2]any {
	return [][2]any{
		{"caMaxUndecryptablePackets", int64(protocol.MaxUndecryptablePackets)},
		{"caVersion1", int64(protocol.Version1)},
		{"caVersion2", int64(protocol.Version2)},
		{"caDefaultHandshakeIdleTimeoutNs", int64(protocol.DefaultHandshakeIdleTimeout)},
		{"caHandshakeTimeoutFactor", int64((&Config{HandshakeIdleTimeout: time.Second}).handshakeTimeout() / time.Second)},
	}
}

// ---- hooks for whole-connection simulations (simhandshake) ----

// VerifHookClientConns makes every client connection created from now on (plain and spec-driven,
// including the ones re-created after a version negotiation) visible to cb, by wrapping the
// constructor variables the package already exposes for mocking. The returned function restores them.
// Not safe for concurrent use with another hook; simulations run one at a time.
func VerifHookClientConns(cb func(*Conn)) (restore func()) {
	origPlain, origU := newClientConnection, newUClientConnection
	newClientConnection = func(ctx context.Context, conn sendConn, runner connRunner, destConnID, srcConnID protocol.ConnectionID,
		g ConnectionIDGenerator, sr *statelessResetter, conf *Config, tlsConf *tls.Config, ipn protocol.PacketNumber,
		enable0RTT, hasNegotiatedVersion bool, qt qlogwriter.Trace, logger utils.Logger, v protocol.Version) *wrappedConn {
		wc := origPlain(ctx, conn, runner, destConnID, srcConnID, g, sr, conf, tlsConf, ipn, enable0RTT, hasNegotiatedVersion, qt, logger, v)
		cb(wc.Conn)
		return wc
	}
	newUClientConnection = func(ctx context.Context, conn sendConn, runner connRunner, destConnID, srcConnID protocol.ConnectionID,
		g ConnectionIDGenerator, sr *statelessResetter, conf *Config, tlsConf *tls.Config, ipn protocol.PacketNumber,
		enable0RTT, hasNegotiatedVersion bool, qt qlogwriter.Trace, logger utils.Logger, v protocol.Version, spec *QUICSpec) *wrappedConn {
		wc := origU(ctx, conn, runner, destConnID, srcConnID, g, sr, conf, tlsConf, ipn, enable0RTT, hasNegotiatedVersion, qt, logger, v, spec)
		cb(wc.Conn)
		return wc
	}
	return func() { newClientConnection, newUClientConnection = origPlain, origU }
}

// VerifTransportHandlers is the number of entries in a Transport's connection-ID routing map.
func VerifTransportHandlers(t *Transport) int {
	t.mutex.Lock()
	defer t.mutex.Unlock()
	return len(t.handlers)
}

// VerifSetInitialDCIDLen makes clients choose original destination connection IDs of a fixed length
// (through the package's own mocking variable); the returned function restores the random length.
func VerifSetInitialDCIDLen(n int) (restore func()) {
	orig := generateConnectionIDForInitial
	generateConnectionIDForInitial = func() (protocol.ConnectionID, error) { return protocol.GenerateConnectionID(n) }
	return func() { generateConnectionIDForInitial = orig }
}

// ---- traced client connections (simtrace): the pre-authentication events a client connection logged ----

// VerifCAEvent: one qlog event of a client connection, reduced to what the ConnAccept model speaks about.
type VerifCAEvent struct {
	Kind     string // "recv" | "drop" | "buffered" | "vn" | "keydiscard-initial" | "closed-remote" | "closed-local"
	PType    string // initial | handshake | 0RTT | 1RTT | retry | version_negotiation | ""
	Version  uint32
	SCID     []byte
	PN       int64
	Token    []byte
	Trigger  string
	Versions []uint32
}

// VerifCATraced: a client connection created while the traced hook was installed.
type VerifCATraced struct {
	Conn    *Conn
	Initial VerifCAState // state right after construction
	rec     *verifRecorder
}

func (t *VerifCATraced) Events() []VerifCAEvent {
	var out []VerifCAEvent
	if t.rec == nil {
		return nil
	}
	t.rec.mu.Lock()
	evs := append([]qlogwriter.Event(nil), t.rec.evs...)
	t.rec.mu.Unlock()
	hdr := func(h qlog.PacketHeader) (string, uint32, []byte, int64) {
		return string(h.PacketType), uint32(h.Version), h.SrcConnectionID.Bytes(), int64(h.PacketNumber)
	}
	for _, e := range evs {
		switch ev := e.(type) {
		case qlog.PacketReceived:
			x := VerifCAEvent{Kind: "recv"}
			x.PType, x.Version, x.SCID, x.PN = hdr(ev.Header)
			if ev.Header.Token != nil {
				x.Token = ev.Header.Token.Raw
			}
			out = append(out, x)
		case qlog.PacketDropped:
			x := VerifCAEvent{Kind: "drop", Trigger: string(ev.Trigger)}
			x.PType, x.Version, x.SCID, x.PN = hdr(ev.Header)
			out = append(out, x)
		case qlog.PacketBuffered:
			x := VerifCAEvent{Kind: "buffered"}
			x.PType, x.Version, x.SCID, x.PN = hdr(ev.Header)
			out = append(out, x)
		case qlog.VersionNegotiationReceived:
			x := VerifCAEvent{Kind: "vn", PType: "version_negotiation"}
			for _, v := range ev.SupportedVersions {
				x.Versions = append(x.Versions, uint32(v))
			}
			out = append(out, x)
		case qlog.KeyDiscarded:
			if ev.KeyType == qlog.KeyTypeClientInitial {
				out = append(out, VerifCAEvent{Kind: "keydiscard-initial"})
			}
		case qlog.ConnectionClosed:
			k := "closed-local"
			if ev.Initiator == qlog.InitiatorRemote {
				k = "closed-remote"
			}
			out = append(out, VerifCAEvent{Kind: k})
		}
	}
	return out
}

// CloseClass: how the connection ended ("" if it is still open), in the classes of VerifCAResult.Closed.
func (t *VerifCATraced) CloseClass() string {
	ce := t.Conn.closeErr.Load()
	if ce == nil {
		return ""
	}
	c := verifCAErrClass(ce.err)
	if c == "" {
		c = "nil"
	}
	return c
}

// VerifHookClientConnsTraced is VerifHookClientConns plus a recording qlog trace on every client connection
// that has none of its own.
func VerifHookClientConnsTraced(cb func(*VerifCATraced)) (restore func()) {
	origPlain, origU := newClientConnection, newUClientConnection
	wrap := func(qt qlogwriter.Trace) (qlogwriter.Trace, *verifRecorder) {
		if qt != nil {
			return qt, nil
		}
		r := &verifRecorder{}
		return verifTrace{r}, r
	}
	newClientConnection = func(ctx context.Context, conn sendConn, runner connRunner, destConnID, srcConnID protocol.ConnectionID,
		g ConnectionIDGenerator, sr *statelessResetter, conf *Config, tlsConf *tls.Config, ipn protocol.PacketNumber,
		enable0RTT, hasNegotiatedVersion bool, qt qlogwriter.Trace, logger utils.Logger, v protocol.Version) *wrappedConn {
		qt, rec := wrap(qt)
		wc := origPlain(ctx, conn, runner, destConnID, srcConnID, g, sr, conf, tlsConf, ipn, enable0RTT, hasNegotiatedVersion, qt, logger, v)
		cb(&VerifCATraced{Conn: wc.Conn, Initial: VerifConnAcceptState(wc.Conn), rec: rec})
		return wc
	}
	newUClientConnection = func(ctx context.Context, conn sendConn, runner connRunner, destConnID, srcConnID protocol.ConnectionID,
		g ConnectionIDGenerator, sr *statelessResetter, conf *Config, tlsConf *tls.Config, ipn protocol.PacketNumber,
		enable0RTT, hasNegotiatedVersion bool, qt qlogwriter.Trace, logger utils.Logger, v protocol.Version, spec *QUICSpec) *wrappedConn {
		qt, rec := wrap(qt)
		wc := origU(ctx, conn, runner, destConnID, srcConnID, g, sr, conf, tlsConf, ipn, enable0RTT, hasNegotiatedVersion, qt, logger, v, spec)
		cb(&VerifCATraced{Conn: wc.Conn, Initial: VerifConnAcceptState(wc.Conn), rec: rec})
		return wc
	}
	return func() { newClientConnection, newUClientConnection = origPlain, origU }
}
