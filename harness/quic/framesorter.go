//go:build verif

package quic

import (
	"github.com/refraction-networking/uquic/internal/protocol"
)

// VerifFrameSorter gives the verification harness access to the unexported frameSorter.
type VerifFrameSorter struct{ s *frameSorter }

func VerifNewFrameSorter() *VerifFrameSorter { return &VerifFrameSorter{s: newFrameSorter()} }

func (v *VerifFrameSorter) Push(data []byte, offset int64, cb func()) error {
	return v.s.Push(data, protocol.ByteCount(offset), cb)
}

func (v *VerifFrameSorter) Pop() (int64, []byte, func()) {
	o, d, cb := v.s.Pop()
	return int64(o), d, cb
}

func (v *VerifFrameSorter) Peek(offset int64, p []byte) error {
	return v.s.Peek(protocol.ByteCount(offset), p)
}

func (v *VerifFrameSorter) PeekTooLittle(err error) bool { return err == errTooLittleData }

func (v *VerifFrameSorter) HasMoreData() bool { return v.s.HasMoreData() }
func (v *VerifFrameSorter) GapCount() int     { return v.s.gaps.Len() }
func (v *VerifFrameSorter) ReadPos() int64    { return int64(v.s.readPos) }

// Gaps returns the gap list (observation only).
func (v *VerifFrameSorter) Gaps() [][2]int64 {
	var out [][2]int64
	for g := v.s.gaps.Front(); g != nil; g = g.Next() {
		out = append(out, [2]int64{int64(g.Value.Start), int64(g.Value.End)})
	}
	return out
}

// VerifQueueEntry is one entry of the sorter's queue: its key and its data slice
// (the slice itself, so the harness can check which buffer it aliases).
type VerifQueueEntry struct {
	Offset int64
	Data   []byte
	HasCb  bool
}

func (v *VerifFrameSorter) Entries() []VerifQueueEntry {
	out := make([]VerifQueueEntry, 0, len(v.s.queue))
	for k, e := range v.s.queue {
		out = append(out, VerifQueueEntry{Offset: int64(k), Data: e.Data, HasCb: e.DoneCb != nil})
	}
	return out
}

func VerifFrameSorterConsts() [][2]any {
	return [][2]any{
		{"FS_MaxByteCount", int64(protocol.MaxByteCount)},
		{"FS_MinStreamFrameBufferSize", int64(protocol.MinStreamFrameBufferSize)},
		{"FS_MaxStreamFrameSorterGaps", int64(protocol.MaxStreamFrameSorterGaps)},
		{"FS_MaxCryptoStreamOffset", int64(protocol.MaxCryptoStreamOffset)},
	}
}
