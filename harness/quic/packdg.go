//go:build verif

package quic

// Verification harness for the DATAGRAM path of packetPacker.composeNextPacket (unit `packdg`,
// property C01 claim (d)): a real packetPacker around a real framer (behind a recording proxy),
// a real datagramQueue and a real retransmissionQueue; the ack source is a stub.

import (
	"bytes"
	"context"
	"encoding/binary"
	"fmt"
	"math/rand/v2"

	"github.com/refraction-networking/uquic/internal/ackhandler"
	"github.com/refraction-networking/uquic/internal/flowcontrol"
	"github.com/refraction-networking/uquic/internal/monotime"
	"github.com/refraction-networking/uquic/internal/protocol"
	"github.com/refraction-networking/uquic/internal/utils"
	"github.com/refraction-networking/uquic/internal/wire"
)

type verifPackDgFramer struct {
	f       *framer
	last    []ackhandler.Frame // what the last Append added (as the framer returned it)
	hasData bool
}

func (x *verifPackDgFramer) HasData() bool { x.hasData = x.f.HasData(); return x.hasData }
func (x *verifPackDgFramer) Append(frames []ackhandler.Frame, sf []ackhandler.StreamFrame, maxLen protocol.ByteCount, now monotime.Time, v protocol.Version) ([]ackhandler.Frame, []ackhandler.StreamFrame, protocol.ByteCount) {
	n := len(frames)
	r, s, l := x.f.Append(frames, sf, maxLen, now, v)
	x.last = append([]ackhandler.Frame{}, r[n:]...)
	return r, s, l
}

type verifPackDgAcks struct{ ack *wire.AckFrame }

func (a *verifPackDgAcks) GetAckFrame(protocol.EncryptionLevel, monotime.Time, bool) *wire.AckFrame {
	r := a.ack
	a.ack = nil
	return r
}

type verifPackDgSender struct{ fr *framer }

func (s *verifPackDgSender) onHasConnectionData() {}
func (s *verifPackDgSender) onHasStreamData(id protocol.StreamID, str *SendStream) {
	s.fr.AddActiveStream(id, str)
}
func (s *verifPackDgSender) onHasStreamControlFrame(id protocol.StreamID, str streamControlFrameGetter) {
	s.fr.AddStreamWithControlFrames(id, str)
}
func (s *verifPackDgSender) onStreamCompleted(protocol.StreamID) {}

// VerifPackDgFrame is a logged payload frame: Kind 0 DATAGRAM (Key = payload), 1 MAX_DATA (Key = value),
// 2 PATH_RESPONSE (Key = id), 3 RESET_STREAM (Key = stream id), 9 anything else;
// H: 0 no handler, 1 the retransmission queue's 1-RTT handler, 2 another handler.
type VerifPackDgFrame struct {
	Kind int
	Key  int64
	Data []byte
	Len  int64
	H    int
}

type VerifPackDgPacket struct {
	pl      payload
	frames  []ackhandler.Frame
	sframes []ackhandler.StreamFrame
	Frames  []VerifPackDgFrame
}

type VerifPackDg struct {
	p      *packetPacker
	proxy  *verifPackDgFramer
	dq     *datagramQueue
	rq     *retransmissionQueue
	acks   *verifPackDgAcks
	sender *verifPackDgSender
	cfc    flowcontrol.ConnectionFlowController
	nextID protocol.StreamID
}

func VerifNewPackDg() *VerifPackDg {
	rtt := utils.NewRTTStats()
	cfc := flowcontrol.NewConnectionFlowController(1<<20, 1<<20, func(protocol.ByteCount) bool { return true }, rtt, utils.DefaultLogger)
	cfc.UpdateSendWindow(1 << 30)
	fr := newFramer(cfc)
	v := &VerifPackDg{proxy: &verifPackDgFramer{f: fr}, rq: newRetransmissionQueue(), acks: &verifPackDgAcks{}, cfc: cfc, sender: &verifPackDgSender{fr: fr}}
	v.dq = newDatagramQueue(func() {}, utils.DefaultLogger)
	v.p = &packetPacker{framer: v.proxy, acks: v.acks, datagramQueue: v.dq, retransmissionQueue: v.rq, rand: *rand.New(rand.NewPCG(1, 2))}
	return v
}

func verifPackDgLog(f ackhandler.Frame) VerifPackDgFrame {
	r := VerifPackDgFrame{Kind: 9, Len: int64(f.Frame.Length(protocol.Version1))}
	switch x := f.Frame.(type) {
	case *wire.DatagramFrame:
		r.Kind, r.Data = 0, append([]byte{}, x.Data...)
	case *wire.MaxDataFrame:
		r.Kind, r.Key = 1, int64(x.MaximumData)
	case *wire.PathResponseFrame:
		r.Kind, r.Key = 2, int64(binary.BigEndian.Uint64(x.Data[:]))
	case *wire.ResetStreamFrame:
		r.Kind, r.Key = 3, int64(x.StreamID)
	}
	switch f.Handler.(type) {
	case nil:
		r.H = 0
	case *retransmissionQueueAppDataAckHandler:
		r.H = 1
	default:
		r.H = 2
	}
	return r
}

// AddDatagram must only be called while the send ring has room (it would block otherwise).
func (v *VerifPackDg) AddDatagram(data []byte) error {
	return v.dq.Add(&wire.DatagramFrame{DataLenPresent: true, Data: data})
}
func (v *VerifPackDg) SendQueueLen() int {
	v.dq.sendMx.Lock()
	defer v.dq.sendMx.Unlock()
	return v.dq.sendQueue.Len()
}
func (v *VerifPackDg) QueueMaxData(val int64) {
	v.proxy.f.QueueControlFrame(&wire.MaxDataFrame{MaximumData: protocol.ByteCount(val)})
}
func (v *VerifPackDg) QueuePathResponse(id int64) {
	f := &wire.PathResponseFrame{}
	binary.BigEndian.PutUint64(f.Data[:], uint64(id))
	v.proxy.f.QueueControlFrame(f)
}

// QueueStreamReset opens a send stream and cancels it: its RESET_STREAM comes with the stream's own handler.
func (v *VerifPackDg) QueueStreamReset() int64 {
	id := v.nextID
	v.nextID += 4
	fc := flowcontrol.NewStreamFlowController(id, v.cfc, 1<<20, 1<<20, 1<<20, utils.NewRTTStats(), utils.DefaultLogger)
	s := newSendStream(context.Background(), id, v.sender, fc, false)
	s.CancelWrite(7)
	return int64(id)
}

// QueueStreamData opens a send stream with n buffered bytes (n <= 1000) and closes it: STREAM frames make framer.HasData() true.
func (v *VerifPackDg) QueueStreamData(n int) {
	id := v.nextID
	v.nextID += 4
	fc := flowcontrol.NewStreamFlowController(id, v.cfc, 1<<20, 1<<20, 1<<20, utils.NewRTTStats(), utils.DefaultLogger)
	s := newSendStream(context.Background(), id, v.sender, fc, false)
	s.Write(make([]byte, n))
	s.Close()
}

// Compose calls composeNextPacket(maxPayload, onlyAck=false, ackAllowed); withAck makes the ack source return a small ACK.
// Returns the packet, the value framer.HasData() had, the frames framer.Append added, and the ACK length (-1: none in the payload).
func (v *VerifPackDg) Compose(maxPayload int64, ackAllowed, withAck bool) (*VerifPackDgPacket, bool, []VerifPackDgFrame, int64) {
	v.acks.ack = nil
	if withAck {
		v.acks.ack = &wire.AckFrame{AckRanges: []wire.AckRange{{Smallest: 1, Largest: 7}}}
	}
	v.proxy.last = nil
	pl := v.p.composeNextPacket(protocol.ByteCount(maxPayload), false, ackAllowed, monotime.Now(), protocol.Version1)
	pkt := &VerifPackDgPacket{pl: pl, frames: pl.frames, sframes: pl.streamFrames}
	for _, f := range pl.frames {
		pkt.Frames = append(pkt.Frames, verifPackDgLog(f))
	}
	var fr []VerifPackDgFrame
	for _, f := range v.proxy.last {
		fr = append(fr, verifPackDgLog(f))
	}
	ackLen := int64(-1)
	if pl.ack != nil {
		ackLen = int64(pl.ack.Length(protocol.Version1))
	}
	return pkt, v.proxy.hasData, fr, ackLen
}

func (v *VerifPackDg) Lost(p *VerifPackDgPacket) {
	for _, f := range p.frames {
		if f.Handler != nil {
			f.Handler.OnLost(f.Frame)
		}
	}
	for _, f := range p.sframes {
		f.Handler.OnLost(f.Frame)
	}
}
func (v *VerifPackDg) Acked(p *VerifPackDgPacket) {
	for _, f := range p.frames {
		if f.Handler != nil {
			f.Handler.OnAcked(f.Frame)
		}
	}
	for _, f := range p.sframes {
		f.Handler.OnAcked(f.Frame)
	}
}

// RetxQueue: the frames waiting in retransmissionQueue.appData.other.
func (v *VerifPackDg) RetxQueue() []VerifPackDgFrame {
	var out []VerifPackDgFrame
	for _, f := range v.rq.appData.other {
		out = append(out, verifPackDgLog(ackhandler.Frame{Frame: f}))
	}
	return out
}

// SetShuffleSeed seeds the packer's frame shuffle (appendPacketPayload).
func (v *VerifPackDg) SetShuffleSeed(a uint64) { v.p.rand = *rand.New(rand.NewPCG(a, a^0x5bd1e995)) }

func verifPackDgRepr(f wire.Frame) string {
	switch x := f.(type) {
	case *wire.DatagramFrame:
		return "D" + string(x.Data)
	case *wire.StreamFrame:
		return fmt.Sprintf("S%d/%d/%v/%x", x.StreamID, x.Offset, x.Fin, x.Data)
	case *wire.AckFrame:
		return fmt.Sprintf("A%v", x.AckRanges)
	}
	b, err := f.Append(nil, protocol.Version1)
	if err != nil {
		return "E" + err.Error()
	}
	return fmt.Sprintf("C%x", b)
}

// WireCheck serialises the packet's payload with the real appendPacketPayload (including the
// shuffle of the control frames, on a copy) and parses it back the way Conn.handleFrames does.
// Returns "" when the parsed frames are the frames the packer was given; otherwise a class
// ("datagram-modified", "frame-lost", "parse-error", "append-error") and a description.
func (v *VerifPackDg) WireCheck(p *VerifPackDgPacket) (string, string) {
	pl := p.pl
	pl.frames = append([]ackhandler.Frame{}, p.pl.frames...)
	raw, err := v.p.appendPacketPayload(nil, pl, 0, protocol.Version1)
	if err != nil {
		return "append-error", err.Error()
	}
	var want, wantDg []string
	if pl.ack != nil {
		want = append(want, verifPackDgRepr(pl.ack))
	}
	for _, f := range pl.frames {
		want = append(want, verifPackDgRepr(f.Frame))
		if d, ok := f.Frame.(*wire.DatagramFrame); ok {
			wantDg = append(wantDg, string(d.Data))
		}
	}
	for _, f := range pl.streamFrames {
		want = append(want, verifPackDgRepr(f.Frame))
	}
	parser := wire.NewFrameParser(true, true, false)
	var got, gotDg []string
	data := raw
	for len(data) > 0 {
		typ, l, err := parser.ParseType(data, protocol.Encryption1RTT)
		if err != nil {
			if len(bytes.TrimRight(data, "\x00")) == 0 {
				break
			}
			return "parse-error", fmt.Sprintf("%v after %d frames (payload %x)", err, len(got), raw)
		}
		data = data[l:]
		var f wire.Frame
		var n int
		switch {
		case typ.IsStreamFrameType():
			f, n, err = parser.ParseStreamFrame(typ, data, protocol.Version1)
		case typ.IsAckFrameType():
			f, n, err = parser.ParseAckFrame(typ, data, protocol.Encryption1RTT, protocol.Version1)
		case typ.IsDatagramFrameType():
			var d *wire.DatagramFrame
			d, n, err = parser.ParseDatagramFrame(typ, data, protocol.Version1)
			if err == nil {
				gotDg = append(gotDg, string(d.Data))
				f = d
			}
		default:
			f, n, err = parser.ParseLessCommonFrame(typ, data, protocol.Version1)
		}
		if err != nil {
			return "parse-error", fmt.Sprintf("%v after %d frames (payload %x)", err, len(got), raw)
		}
		data = data[n:]
		if f != nil {
			got = append(got, verifPackDgRepr(f))
		}
	}
	if len(gotDg) != len(wantDg) {
		return "datagram-modified", fmt.Sprintf("the packet was given %d DATAGRAM frame(s), the peer parses %d", len(wantDg), len(gotDg))
	}
	for i := range wantDg {
		if gotDg[i] != wantDg[i] {
			return "datagram-modified", fmt.Sprintf("queued datagram of %d bytes is parsed by the peer as a datagram of %d bytes (%d frames given to the packet, %d parsed)", len(wantDg[i]), len(gotDg[i]), len(want), len(got))
		}
	}
	if len(got) != len(want) {
		return "frame-lost", fmt.Sprintf("%d frames given to the packet, the peer parses %d", len(want), len(got))
	}
	for i := range want {
		if got[i] != want[i] {
			return "frame-lost", fmt.Sprintf("frame %d of the payload is parsed as %.40q, the packer was given %.40q", i, got[i], want[i])
		}
	}
	return "", ""
}
