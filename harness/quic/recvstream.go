//go:build verif

package quic

import (
	"errors"
	"io"
	"time"

	"github.com/refraction-networking/uquic/internal/flowcontrol"
	"github.com/refraction-networking/uquic/internal/monotime"
	"github.com/refraction-networking/uquic/internal/protocol"
	"github.com/refraction-networking/uquic/internal/qerr"
	"github.com/refraction-networking/uquic/internal/utils"
	"github.com/refraction-networking/uquic/internal/wire"
)

// verifSender is a recording streamSender.
type verifSender struct {
	Completed, ControlFrames, ConnData int
}

func (s *verifSender) onHasConnectionData()                                        { s.ConnData++ }
func (s *verifSender) onHasStreamData(protocol.StreamID, *SendStream)              {}
func (s *verifSender) onHasStreamControlFrame(protocol.StreamID, streamControlFrameGetter) { s.ControlFrames++ }
func (s *verifSender) onStreamCompleted(protocol.StreamID)                         { s.Completed++ }

// VerifRecvStream drives a real ReceiveStream (real frame sorter, real stream flow
// controller with a fixed window, connection window out of reach).
type VerifRecvStream struct {
	s      *ReceiveStream
	sender *verifSender
}

func VerifNewRecvStream(window int64) *VerifRecvStream {
	snd := &verifSender{}
	rtt := utils.NewRTTStats()
	cfc := flowcontrol.NewConnectionFlowController(1<<50, 1<<50, func(protocol.ByteCount) bool { return true }, rtt, utils.DefaultLogger)
	fc := flowcontrol.NewStreamFlowController(3, cfc, protocol.ByteCount(window), protocol.ByteCount(window), 1<<20, rtt, utils.DefaultLogger)
	return &VerifRecvStream{s: newReceiveStream(3, snd, fc), sender: snd}
}

// error classes of frame handling: 0 nil, 1 FINAL_SIZE_ERROR, 2 FLOW_CONTROL_ERROR, 3 too many gaps, 9 other
func verifFrameErrClass(err error) int64 {
	if err == nil {
		return 0
	}
	var te *qerr.TransportError
	if errors.As(err, &te) {
		switch te.ErrorCode {
		case qerr.FinalSizeError:
			return 1
		case qerr.FlowControlError:
			return 2
		}
		return 9
	}
	if err.Error() == "too many gaps in received data" {
		return 3
	}
	return 9
}

func (v *VerifRecvStream) HandleStreamFrame(f *wire.StreamFrame) int64 {
	return verifFrameErrClass(v.s.handleStreamFrame(f, monotime.Now()))
}

func (v *VerifRecvStream) HandleReset(final, reliable int64, code uint64) int64 {
	return verifFrameErrClass(v.s.handleResetStreamFrame(&wire.ResetStreamFrame{
		StreamID: 3, ErrorCode: qerr.StreamErrorCode(code), FinalSize: protocol.ByteCount(final), ReliableSize: protocol.ByteCount(reliable),
	}, monotime.Now()))
}

// read error classes: 0 nil, 1 EOF, 2 StreamError (code, remote), 3 shutdown error, 4 deadline (would block), 9 other
func verifReadErrClass(err error) (cls int64, code int64, remote bool) {
	if err == nil {
		return 0, 0, false
	}
	if err == io.EOF {
		return 1, 0, false
	}
	var se *StreamError
	if errors.As(err, &se) {
		return 2, int64(se.ErrorCode), se.Remote
	}
	if err == errDeadline {
		return 4, 0, false
	}
	if err == errVerifShutdown {
		return 3, 0, false
	}
	return 9, 0, false
}

var errVerifShutdown = errors.New("verif: closed for shutdown")

// Read and Peek must be called inside a synctest bubble: a call that would park returns
// errDeadline after one virtual second.
func (v *VerifRecvStream) Read(n int) ([]byte, int64, int64, bool) {
	v.s.SetReadDeadline(time.Now().Add(time.Second))
	p := make([]byte, n)
	m, err := v.s.Read(p)
	cls, code, remote := verifReadErrClass(err)
	return p[:m], cls, code, remote
}

func (v *VerifRecvStream) Peek(n int) ([]byte, int64, int64, bool) {
	v.s.SetReadDeadline(time.Now().Add(time.Second))
	p := make([]byte, n)
	m, err := v.s.Peek(p)
	cls, code, remote := verifReadErrClass(err)
	return p[:m], cls, code, remote
}

func (v *VerifRecvStream) CancelRead(code uint64) { v.s.CancelRead(StreamErrorCode(code)) }
func (v *VerifRecvStream) CloseForShutdown()      { v.s.closeForShutdown(errVerifShutdown) }
func (v *VerifRecvStream) Completed() int         { return v.sender.Completed }
func (v *VerifRecvStream) ReadPos() int64         { return int64(v.s.readPos) }

// Referenced returns every byte slice the stream still holds: queued entries and the
// unread rest of the current frame.
func (v *VerifRecvStream) Referenced() [][]byte {
	var out [][]byte
	for _, e := range v.s.frameQueue.queue {
		out = append(out, e.Data)
	}
	if v.s.currentFrame != nil && v.s.readPosInFrame < len(v.s.currentFrame) {
		out = append(out, v.s.currentFrame[v.s.readPosInFrame:])
	}
	return out
}

// C03CurrentFrame returns the stream's current frame (nil after the end-of-stream release),
// whether or not it has been read completely: the buffer the stream still owes a release for.
func (v *VerifRecvStream) C03CurrentFrame() []byte { return v.s.currentFrame }

// VerifCryptoStream drives a real cryptoStream (receive side).
type VerifCryptoStream struct{ s *cryptoStream }

func VerifNewCryptoStream() *VerifCryptoStream { return &VerifCryptoStream{s: newCryptoStream()} }

// 0 nil, 1 CRYPTO_BUFFER_EXCEEDED, 2 PROTOCOL_VIOLATION, 3 too many gaps, 9 other
func verifCryptoErrClass(err error) int64 {
	if err == nil {
		return 0
	}
	var te *qerr.TransportError
	if errors.As(err, &te) {
		switch te.ErrorCode {
		case qerr.CryptoBufferExceeded:
			return 1
		case qerr.ProtocolViolation:
			return 2
		}
		return 9
	}
	if err.Error() == "too many gaps in received data" {
		return 3
	}
	return 9
}

func (v *VerifCryptoStream) HandleCryptoFrame(data []byte, offset int64) int64 {
	return verifCryptoErrClass(v.s.HandleCryptoFrame(&wire.CryptoFrame{Offset: protocol.ByteCount(offset), Data: data}))
}
func (v *VerifCryptoStream) GetCryptoData() []byte { return v.s.GetCryptoData() }
func (v *VerifCryptoStream) Finish() int64         { return verifCryptoErrClass(v.s.Finish()) }
func (v *VerifCryptoStream) Queued() [][]byte {
	var out [][]byte
	for _, e := range v.s.queue.queue {
		out = append(out, e.Data)
	}
	return out
}
