//go:build verif

package quic

// C04 (connglue): the connection-level glue in front of the send-side flow controllers, on a real
// Conn that is constructed the way the transport / the server does but never run:
// restoreTransportParameters (0-RTT), handleTransportParameters, applyTransportParameters (what
// handleHandshakeComplete calls on the client), Conn.newFlowController via the real streamsMap
// (OpenStream / OpenUniStream / a peer-opened bidirectional stream), handleFrame for MAX_DATA and
// MAX_STREAM_DATA, dropEncryptionLevel(0-RTT) (0-RTT rejection), and the real framer. Add-only.

import (
	"context"
	"fmt"
	"net"
	"time"

	"github.com/refraction-networking/uquic/internal/handshake"
	"github.com/refraction-networking/uquic/internal/monotime"
	"github.com/refraction-networking/uquic/internal/protocol"
	"github.com/refraction-networking/uquic/internal/utils"
	"github.com/refraction-networking/uquic/internal/wire"
	tls "github.com/refraction-networking/utls"
)

type verifC04SendConn struct{ local, remote net.Addr }

func (c *verifC04SendConn) Write([]byte, uint16, protocol.ECN) error { return nil }
func (c *verifC04SendConn) WriteTo([]byte, net.Addr) error          { return nil }
func (c *verifC04SendConn) Close() error                            { return nil }
func (c *verifC04SendConn) LocalAddr() net.Addr                     { return c.local }
func (c *verifC04SendConn) RemoteAddr() net.Addr                    { return c.remote }
func (c *verifC04SendConn) ChangeRemoteAddr(net.Addr, packetInfo)   {}
func (c *verifC04SendConn) capabilities() connCapabilities          { return connCapabilities{} }

type verifC04Runner struct{}

func (verifC04Runner) Add(protocol.ConnectionID, packetHandler) bool                     { return true }
func (verifC04Runner) Remove(protocol.ConnectionID)                                      {}
func (verifC04Runner) ReplaceWithClosed([]protocol.ConnectionID, []byte, time.Duration) {}
func (verifC04Runner) AddResetToken(protocol.StatelessResetToken, packetHandler)        {}
func (verifC04Runner) RemoveResetToken(protocol.StatelessResetToken)                    {}

// VerifC04Conn is a constructed, not running connection with the streams opened on it.
type VerifC04Conn struct {
	c       *Conn
	client  bool
	writers []interface{ Write([]byte) (int, error) }
	ids     []protocol.StreamID
	peerN   int64 // peer-opened bidirectional streams so far
	served  bool  // server: handleTransportParameters closes earlyConnReadyChan, once
}

func NewVerifC04Conn(client bool) (v *VerifC04Conn, err error) {
	defer func() {
		if r := recover(); r != nil {
			err = fmt.Errorf("panic: %v", r)
		}
	}()
	conf := populateConfig(&Config{DisablePathMTUDiscovery: true})
	sc := &verifC04SendConn{
		local:  &net.UDPAddr{IP: net.IPv4(1, 0, 0, 1), Port: 9001},
		remote: &net.UDPAddr{IP: net.IPv4(1, 0, 0, 2), Port: 9002},
	}
	gen := &protocol.DefaultConnectionIDGenerator{ConnLen: 4}
	var wc *wrappedConn
	if client {
		wc = newClientConnection(context.Background(), sc, verifC04Runner{},
			protocol.ParseConnectionID([]byte{1, 2, 3, 4, 5, 6, 7, 8}), protocol.ParseConnectionID([]byte{4, 3, 2, 1}), gen,
			newStatelessResetter(nil), conf, &tls.Config{ServerName: "verif.invalid", InsecureSkipVerify: true}, 0, true, false, nil,
			utils.DefaultLogger, protocol.Version1)
	} else {
		ctx, cancel := context.WithCancelCause(context.Background())
		wc = newConnection(ctx, cancel, sc, verifC04Runner{},
			protocol.ParseConnectionID([]byte{1, 2, 3, 4, 5, 6, 7, 8}), nil,
			protocol.ParseConnectionID([]byte{1, 2, 3, 4, 5, 6, 7, 8}), protocol.ParseConnectionID([]byte{9, 9, 9, 9}),
			protocol.ParseConnectionID([]byte{4, 3, 2, 1}), gen, newStatelessResetter(nil),
			conf, &tls.Config{}, handshake.NewTokenGenerator(handshake.TokenProtectorKey{}), true, 0, nil,
			utils.DefaultLogger, protocol.Version1)
	}
	return &VerifC04Conn{c: wc.Conn, client: client}, nil
}

func (v *VerifC04Conn) params(bl, br, uni, md int64) *wire.TransportParameters {
	p := &wire.TransportParameters{
		InitialMaxStreamDataBidiLocal:  protocol.ByteCount(bl),
		InitialMaxStreamDataBidiRemote: protocol.ByteCount(br),
		InitialMaxStreamDataUni:        protocol.ByteCount(uni),
		InitialMaxData:                 protocol.ByteCount(md),
		MaxBidiStreamNum:               16,
		MaxUniStreamNum:                16,
		ActiveConnectionIDLimit:        3,
		MaxUDPPayloadSize:              protocol.MaxPacketBufferSize,
		MaxDatagramFrameSize:           protocol.InvalidByteCount,
		InitialSourceConnectionID:      v.c.handshakeDestConnID,
	}
	if v.client {
		p.OriginalDestinationConnectionID = v.c.origDestConnID
	}
	return p
}

// Restore: the client restores the transport parameters remembered for 0-RTT.
func (v *VerifC04Conn) Restore(bl, br, uni, md int64) (err error) {
	defer func() {
		if r := recover(); r != nil {
			err = fmt.Errorf("panic: %v", r)
		}
	}()
	v.c.restoreTransportParameters(v.params(bl, br, uni, md))
	return nil
}

// Params: the peer's transport parameters arrive with the handshake.
func (v *VerifC04Conn) Params(bl, br, uni, md int64) (err error) {
	defer func() {
		if r := recover(); r != nil {
			err = fmt.Errorf("panic: %v", r)
		}
	}()
	if !v.client {
		if v.served {
			return fmt.Errorf("harness: the server handles transport parameters once")
		}
		v.served = true
	}
	return v.c.handleTransportParameters(v.params(bl, br, uni, md))
}

// Complete: what handleHandshakeComplete does with the transport parameters on the client.
func (v *VerifC04Conn) Complete() (err error) {
	defer func() {
		if r := recover(); r != nil {
			err = fmt.Errorf("panic: %v", r)
		}
	}()
	if v.client {
		v.c.applyTransportParameters()
		v.c.streamsMap.UseResetMaps() // NextConnection after a 0-RTT rejection; a no-op otherwise
	}
	return nil
}

// Reject0RTT: the server rejected 0-RTT.
func (v *VerifC04Conn) Reject0RTT() (err error) {
	defer func() {
		if r := recover(); r != nil {
			err = fmt.Errorf("panic: %v", r)
		}
	}()
	err = v.c.dropEncryptionLevel(protocol.Encryption0RTT, monotime.Now())
	v.writers, v.ids, v.peerN = nil, nil, 0
	return err
}

// Open opens a stream: kind 0 = bidirectional, opened by us; 1 = unidirectional, opened by us;
// 2 = bidirectional, opened by the peer (a STREAM frame arrives, the application accepts it).
func (v *VerifC04Conn) Open(kind int) (id int64, err error) {
	defer func() {
		if r := recover(); r != nil {
			err = fmt.Errorf("panic: %v", r)
		}
	}()
	switch kind {
	case 0:
		s, e := v.c.OpenStream()
		if e != nil {
			return -1, e
		}
		v.writers, v.ids = append(v.writers, s), append(v.ids, s.StreamID())
		return int64(s.StreamID()), nil
	case 1:
		s, e := v.c.OpenUniStream()
		if e != nil {
			return -1, e
		}
		v.writers, v.ids = append(v.writers, s), append(v.ids, s.StreamID())
		return int64(s.StreamID()), nil
	default:
		pid := protocol.StreamID(4 * v.peerN)
		if v.client {
			pid++ // server-initiated bidirectional streams: 1, 5, 9, ...
		}
		// STREAM frames are dispatched by Conn.handleFrames straight to the streams map
		if e := v.c.streamsMap.HandleStreamFrame(&wire.StreamFrame{StreamID: pid, Data: []byte("x"), DataLenPresent: true}, monotime.Now()); e != nil {
			return -1, e
		}
		ctx, cancel := context.WithTimeout(context.Background(), time.Second)
		defer cancel()
		s, e := v.c.AcceptStream(ctx)
		if e != nil {
			return -1, e
		}
		v.peerN++
		v.writers, v.ids = append(v.writers, s), append(v.ids, s.StreamID())
		return int64(s.StreamID()), nil
	}
}

// Write hands n bytes to stream i. The caller keeps the total below one packet buffer, so the
// call never blocks (the bytes are buffered in the stream's next frame).
func (v *VerifC04Conn) Write(i, n int) (int, error) {
	return v.writers[i].Write(make([]byte, n))
}

// MaxStreamData / MaxData: the frames go through Conn.handleFrame.
func (v *VerifC04Conn) MaxStreamData(i int, limit int64) error {
	_, err := v.c.handleFrame(&wire.MaxStreamDataFrame{StreamID: v.ids[i], MaximumStreamData: protocol.ByteCount(limit)},
		protocol.Encryption1RTT, protocol.ConnectionID{}, monotime.Now())
	return err
}

func (v *VerifC04Conn) MaxData(limit int64) error {
	_, err := v.c.handleFrame(&wire.MaxDataFrame{MaximumData: protocol.ByteCount(limit)},
		protocol.Encryption1RTT, protocol.ConnectionID{}, monotime.Now())
	return err
}

// VerifC04Drained is what the framer handed to the packer until nothing more came out.
type VerifC04Drained struct {
	End           []int64    // per stream (index): highest offset in a STREAM frame of this drain, -1 if none
	StreamBlocked [][2]int64 // STREAM_DATA_BLOCKED: (stream index, value), in order of appearance
	DataBlocked   []int64    // DATA_BLOCKED values
}

func (v *VerifC04Conn) Drain() (d VerifC04Drained, err error) {
	defer func() {
		if r := recover(); r != nil {
			err = fmt.Errorf("panic: %v", r)
		}
	}()
	d.End = make([]int64, len(v.ids))
	for i := range d.End {
		d.End[i] = -1
	}
	idx := func(id protocol.StreamID) int {
		for i, x := range v.ids {
			if x == id {
				return i
			}
		}
		return -1
	}
	for round := 0; round < 64; round++ {
		frames, sfs, _ := v.c.framer.Append(nil, nil, 1200, monotime.Now(), protocol.Version1)
		if len(frames) == 0 && len(sfs) == 0 {
			break
		}
		for _, sf := range sfs {
			if i := idx(sf.Frame.StreamID); i >= 0 {
				d.End[i] = max(d.End[i], int64(sf.Frame.Offset+sf.Frame.DataLen()))
			}
		}
		for _, f := range frames {
			switch fr := f.Frame.(type) {
			case *wire.StreamDataBlockedFrame:
				d.StreamBlocked = append(d.StreamBlocked, [2]int64{int64(idx(fr.StreamID)), int64(fr.MaximumStreamData)})
			case *wire.DataBlockedFrame:
				d.DataBlocked = append(d.DataBlocked, int64(fr.MaximumData))
			}
		}
	}
	return d, nil
}

// Shutdown releases the streams (parked writers, contexts).
func (v *VerifC04Conn) Shutdown() {
	defer func() { _ = recover() }()
	v.c.streamsMap.CloseWithError(fmt.Errorf("verif: done"))
}
