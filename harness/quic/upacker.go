//go:build verif

package quic

// Verification harness (unit C10): drives the real uPacketPacker in isolation — real
// packetPacker, real initialCryptoStream, real uSentPacketHandler (packet-number manager),
// real Initial sealer — the way newUClientConnection wires them, and reports what each
// PackCoalescedPacket call produced. Add-only: nothing here changes the package's behaviour.

import (
	"fmt"

	"github.com/refraction-networking/uquic/internal/ackhandler"
	"github.com/refraction-networking/uquic/internal/handshake"
	"github.com/refraction-networking/uquic/internal/monotime"
	"github.com/refraction-networking/uquic/internal/protocol"
	"github.com/refraction-networking/uquic/internal/utils"
	"github.com/refraction-networking/uquic/internal/wire"
)

// VerifUPackerCfg is one isolated Initial flight.
type VerifUPackerCfg struct {
	Spec       *QUICSpec
	DestConnID []byte
	SrcConnID  []byte
	Hello      []byte     // bytes written to the Initial CRYPTO stream before packing
	MaxSize    int        // what Conn.maxPacketSize() would return
	ConfStore  TokenStore // Config.TokenStore before the spec is applied (may be nil)
	Version    uint32
	MaxCalls   int
	// FirstPNOffset > 0: the connection a Dial re-creates after Version Negotiation -- doDial
	// seeds the Initial packet number space with the previous connection's next packet number
	// (InitPacketNumber + offset) while the length list stays based on InitPacketNumber
	FirstPNOffset int64
}

// VerifUPackerDatagram is the result of one PackCoalescedPacket call.
type VerifUPackerDatagram struct {
	Err          string
	Data         []byte     // copy of buffer.Data (the UDP payload)
	PacketLen    int        // longHeaderPacket.length
	PN           int64      // header.PacketNumber
	PNLen        int        // header.PacketNumberLen
	HdrLen       int        // header.GetLength
	LengthField  int        // header.Length
	Frames       [][2]int64 // CRYPTO frames registered for the packet: (offset, data length)
	OtherFrames  int        // registered non-CRYPTO frames
	NumLong      int
	HasShort     bool
	BufCap       int    // cap(buffer.Data) after packing
	ReleasePanic string // what buffer.Release() (the send queue's last step) panicked with
	IdxAfter     int    // uPacketPacker.initialDatagramIdx after the call
	WriteOffset  int64  // initialStream.writeOffset after the call
	Queued       int    // len(initialStream.writeBuf) after the call
	PeekPN       int64  // what PeekPacketNumber answered before the call
	PeekPNLen    int
}

// VerifUPackerInfo: connection-level observables.
type VerifUPackerInfo struct {
	InitialPN  int64  // InitialPacketSpec.initialPN()
	Token      []byte // what the packer was given by SetToken (nil: none)
	TokenSet   bool
	SetupPanic string
}

type verifUPackerSealers struct {
	initial handshake.LongHeaderSealer
}

func (s *verifUPackerSealers) GetInitialSealer() (handshake.LongHeaderSealer, error) {
	return s.initial, nil
}
func (s *verifUPackerSealers) GetHandshakeSealer() (handshake.LongHeaderSealer, error) {
	return nil, handshake.ErrKeysNotYetAvailable
}
func (s *verifUPackerSealers) Get0RTTSealer() (handshake.LongHeaderSealer, error) {
	return nil, handshake.ErrKeysNotYetAvailable
}
func (s *verifUPackerSealers) Get1RTTSealer() (handshake.ShortHeaderSealer, error) {
	return nil, handshake.ErrKeysNotYetAvailable
}

type verifUPackerNoAcks struct{}

func (verifUPackerNoAcks) GetAckFrame(protocol.EncryptionLevel, monotime.Time, bool) *wire.AckFrame {
	return nil
}

// VerifUPackerFlight packs Initial datagrams until the packer has nothing more to send (or
// errs, or MaxCalls is reached).
func VerifUPackerFlight(c VerifUPackerCfg) (info VerifUPackerInfo, out []VerifUPackerDatagram) {
	defer func() {
		if r := recover(); r != nil {
			info.SetupPanic = fmt.Sprint(r)
		}
	}()
	v := protocol.Version(c.Version)
	spec := c.Spec
	ips := &spec.InitialPacketSpec
	destConnID := protocol.ParseConnectionID(c.DestConnID)
	srcConnID := protocol.ParseConnectionID(c.SrcConnID)

	// --- as UTransport.dial ---
	conf := &Config{TokenStore: c.ConfStore}
	spec.UpdateConfig(conf)
	initialPN := ips.initialPN()
	info.InitialPN = int64(initialPN)
	initialPN += protocol.PacketNumber(c.FirstPNOffset) // params.nextPacketNumber of doDial's re-creation

	// --- as newUClientConnection ---
	initialStream := newInitialCryptoStream(true)
	initialStream.DisableScrambling()
	sph := ackhandler.NewUAckHandler(initialPN, protocol.ByteCount(c.MaxSize), &utils.RTTStats{}, &utils.ConnectionStats{},
		false, false, func(protocol.PacketNumber) {}, protocol.PerspectiveClient, nil, utils.DefaultLogger)
	if len(ips.InitPacketNumberLengths) > 0 {
		ackhandler.SetInitialPacketNumberLengths(sph, protocol.PacketNumber(ips.InitPacketNumber), ips.InitPacketNumberLengths)
	} else if ips.InitPacketNumberLength != 0 {
		ackhandler.SetInitialPacketNumberLength(sph, ips.InitPacketNumberLength)
	}
	sealer, _ := handshake.NewInitialAEAD(destConnID, protocol.PerspectiveClient, v)
	pp := newPacketPacker(srcConnID, func() protocol.ConnectionID { return destConnID }, initialStream, newCryptoStream(),
		sph, newRetransmissionQueue(), &verifUPackerSealers{initial: sealer}, nil, verifUPackerNoAcks{}, nil, protocol.PerspectiveClient)
	p := newUPacketPacker(pp, spec)
	if conf.TokenStore != nil {
		if token := conf.TokenStore.Pop("verif.example"); token != nil {
			p.SetToken(token.data)
			info.TokenSet = true
			info.Token = append([]byte{}, token.data...)
		}
	}
	_, _ = initialStream.Write(c.Hello)

	for i := 0; i < c.MaxCalls; i++ {
		d, more := verifUPackerOne(p, sph, initialStream, protocol.ByteCount(c.MaxSize), v)
		if !more {
			break
		}
		out = append(out, d)
		if d.Err != "" {
			break
		}
	}
	return
}

func verifUPackerOne(p *uPacketPacker, sph ackhandler.SentPacketHandler, is *initialCryptoStream, maxSize protocol.ByteCount, v protocol.Version) (d VerifUPackerDatagram, more bool) {
	defer func() {
		if r := recover(); r != nil {
			d.Err = fmt.Sprintf("panic: %v", r)
			more = true
		}
	}()
	ppn, ppl := sph.PeekPacketNumber(protocol.EncryptionInitial)
	d.PeekPN, d.PeekPNLen = int64(ppn), int(ppl)
	pkt, err := p.PackCoalescedPacket(false, maxSize, 0, v)
	d.IdxAfter = p.initialDatagramIdx
	d.WriteOffset = int64(is.writeOffset)
	d.Queued = len(is.writeBuf)
	if err != nil {
		d.Err = err.Error()
		return d, true
	}
	if pkt == nil {
		return d, false
	}
	d.Data = append([]byte{}, pkt.buffer.Data...)
	d.BufCap = cap(pkt.buffer.Data)
	d.NumLong = len(pkt.longHdrPackets)
	d.HasShort = pkt.shortHdrPacket != nil
	if len(pkt.longHdrPackets) > 0 {
		lp := pkt.longHdrPackets[0]
		d.PacketLen = int(lp.length)
		d.PN = int64(lp.header.PacketNumber)
		d.PNLen = int(lp.header.PacketNumberLen)
		d.HdrLen = int(lp.header.GetLength(v))
		d.LengthField = int(lp.header.Length)
		for _, f := range lp.frames {
			if cf, ok := f.Frame.(*wire.CryptoFrame); ok {
				d.Frames = append(d.Frames, [2]int64{int64(cf.Offset), int64(len(cf.Data))})
			} else {
				d.OtherFrames++
			}
		}
	}
	// the send queue releases the buffer after writing it to the socket
	func() {
		defer func() {
			if r := recover(); r != nil {
				d.ReleasePanic = fmt.Sprint(r)
			}
		}()
		pkt.buffer.Release()
	}()
	return d, true
}

// VerifUPackerMaxPacketBufferSize etc.: constants for coq/Gen/Params.v.
func VerifUPackerConsts() [][2]any {
	sealer, _ := handshake.NewInitialAEAD(protocol.ParseConnectionID([]byte{1, 2, 3, 4, 5, 6, 7, 8}), protocol.PerspectiveClient, protocol.Version1)
	return [][2]any{
		{"upSealerOverhead", int64(sealer.Overhead())},
		{"upMaxPacketBufferSize", int64(protocol.MaxPacketBufferSize)},
		{"upInitialPacketSize", int64(protocol.InitialPacketSize)},
		{"upMinInitialPacketSize", int64(protocol.MinInitialPacketSize)},
		{"upDefaultUDPDatagramMinSize", int64(DefaultUDPDatagramMinSize)},
		{"upMaxConnIDLen", int64(protocol.MaxConnIDLen)},
		{"upMinConnectionIDLenInitial", int64(protocol.MinConnectionIDLenInitial)},
		{"upInvalidPacketNumber", int64(protocol.InvalidPacketNumber)},
	}
}

// VerifUPackerTokenStore: the spec's token source as dial resolves it (nil: none).
func VerifUPackerTokenLength(ps *InitialPacketSpec) int { return ps.tokenLength() }

// VerifUPackerPlanFor = InitialPacketSpec.planFor.
func VerifUPackerPlanFor(ps *InitialPacketSpec, idx int) InitialPacketPlan { return ps.planFor(idx) }

// VerifUPackerInitialPN = InitialPacketSpec.initialPN.
func VerifUPackerInitialPN(ps *InitialPacketSpec) int64 { return int64(ps.initialPN()) }
