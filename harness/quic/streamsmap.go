//go:build verif

package quic

import (
	"context"
	"errors"
	"sort"
	"sync"

	"github.com/refraction-networking/uquic/internal/flowcontrol"
	"github.com/refraction-networking/uquic/internal/protocol"
	"github.com/refraction-networking/uquic/internal/qerr"
	"github.com/refraction-networking/uquic/internal/utils"
	"github.com/refraction-networking/uquic/internal/wire"
)

// Verification harness for streams_map*.go (unit StreamsMap, property C15).
// Add-only: drives the real newStreamsMap with real streams and flow controllers, records
// the control frames it queues and exposes the fields that are the property's subject.

// Error classes shared with coq/StreamsMap/Model.v.
const (
	VerifSMErrNone         = 0
	VerifSMErrState        = 1 // STREAM_STATE_ERROR
	VerifSMErrLimit        = 2 // STREAM_LIMIT_ERROR
	VerifSMErrLimitReached = 3 // StreamLimitReachedError (local Open at the peer's limit)
	VerifSMErrClosed       = 4 // the error passed to CloseWithError
	VerifSMErr0RTT         = 5 // Err0RTTRejected
	VerifSMErrCtx          = 6 // context cancelled
	VerifSMErrOther        = 7
)

var errVerifSMClosed = errors.New("verif: streams map closed")

func verifSMErrClass(err error) int {
	if err == nil {
		return VerifSMErrNone
	}
	var te *qerr.TransportError
	if errors.As(err, &te) {
		switch te.ErrorCode {
		case qerr.StreamStateError:
			return VerifSMErrState
		case qerr.StreamLimitError:
			return VerifSMErrLimit
		}
		return VerifSMErrOther
	}
	switch err.(type) {
	case *StreamLimitReachedError, StreamLimitReachedError:
		return VerifSMErrLimitReached
	}
	switch {
	case errors.Is(err, Err0RTTRejected):
		return VerifSMErr0RTT
	case errors.Is(err, errVerifSMClosed):
		return VerifSMErrClosed
	case errors.Is(err, context.Canceled), errors.Is(err, context.DeadlineExceeded):
		return VerifSMErrCtx
	}
	return VerifSMErrOther
}

// VerifSMFrame is a control frame queued by the streams map.
type VerifSMFrame struct {
	Blocked bool // STREAMS_BLOCKED (else MAX_STREAMS)
	Uni     bool
	Num     int64
	Other   bool // any other frame type (never expected)
}

type verifSMSender struct{ v *VerifSM }

func (s *verifSMSender) onHasConnectionData()                                      {}
func (s *verifSMSender) onHasStreamData(protocol.StreamID, *SendStream)            {}
func (s *verifSMSender) onHasStreamControlFrame(protocol.StreamID, streamControlFrameGetter) {}
func (s *verifSMSender) onStreamCompleted(id protocol.StreamID) {
	s.v.mu.Lock()
	s.v.completed = append(s.v.completed, int64(id))
	s.v.mu.Unlock()
}

// VerifSM wraps one streamsMap.
type VerifSM struct {
	m         *streamsMap
	mu        sync.Mutex
	frames    []VerifSMFrame
	created   []int64 // stream IDs in the order newFlowController was called (under the map's mutex)
	completed []int64
	onCreate  func(id int64) // test hook: runs inside newFlowController, i.e. under the map's write lock
}

// SetOnCreate installs (or clears) a hook that runs whenever the streams map creates a stream,
// while the creating method (GetOrOpenStream / openStream) still holds the map's mutex.
func (v *VerifSM) SetOnCreate(f func(id int64)) {
	v.mu.Lock()
	v.onCreate = f
	v.mu.Unlock()
}

func NewVerifSM(client bool, maxBidi, maxUni uint64) *VerifSM {
	v := &VerifSM{}
	pers := protocol.PerspectiveServer
	if client {
		pers = protocol.PerspectiveClient
	}
	rtt := utils.NewRTTStats()
	cfc := flowcontrol.NewConnectionFlowController(1<<20, 1<<20, func(protocol.ByteCount) bool { return true }, rtt, utils.DefaultLogger)
	v.m = newStreamsMap(
		context.Background(),
		&verifSMSender{v: v},
		func(f wire.Frame) {
			var fr VerifSMFrame
			switch g := f.(type) {
			case *wire.MaxStreamsFrame:
				fr = VerifSMFrame{Uni: g.Type == protocol.StreamTypeUni, Num: int64(g.MaxStreamNum)}
			case *wire.StreamsBlockedFrame:
				fr = VerifSMFrame{Blocked: true, Uni: g.Type == protocol.StreamTypeUni, Num: int64(g.StreamLimit)}
			default:
				fr = VerifSMFrame{Other: true}
			}
			v.mu.Lock()
			v.frames = append(v.frames, fr)
			v.mu.Unlock()
		},
		func(id protocol.StreamID) flowcontrol.StreamFlowController {
			v.mu.Lock()
			v.created = append(v.created, int64(id))
			hook := v.onCreate
			v.mu.Unlock()
			if hook != nil {
				hook(int64(id))
			}
			return flowcontrol.NewStreamFlowController(id, cfc, 1<<16, 1<<16, 1<<16, rtt, utils.DefaultLogger)
		},
		maxBidi, maxUni, pers,
	)
	return v
}

// NumFrames / NumCreated / Frames / Created give access to the recorded logs.
func (v *VerifSM) NumFrames() int  { v.mu.Lock(); defer v.mu.Unlock(); return len(v.frames) }
func (v *VerifSM) NumCreated() int { v.mu.Lock(); defer v.mu.Unlock(); return len(v.created) }
func (v *VerifSM) Frames(from int) []VerifSMFrame {
	v.mu.Lock()
	defer v.mu.Unlock()
	return append([]VerifSMFrame{}, v.frames[from:]...)
}
func (v *VerifSM) Created(from int) []int64 {
	v.mu.Lock()
	defer v.mu.Unlock()
	return append([]int64{}, v.created[from:]...)
}

func (v *VerifSM) Open(uni bool) (int64, int) {
	if uni {
		s, err := v.m.OpenUniStream()
		if err != nil {
			return -1, verifSMErrClass(err)
		}
		return int64(s.StreamID()), 0
	}
	s, err := v.m.OpenStream()
	if err != nil {
		return -1, verifSMErrClass(err)
	}
	return int64(s.StreamID()), 0
}

func (v *VerifSM) OpenSync(ctx context.Context, uni bool) (int64, int) {
	if uni {
		s, err := v.m.OpenUniStreamSync(ctx)
		if err != nil {
			return -1, verifSMErrClass(err)
		}
		return int64(s.StreamID()), 0
	}
	s, err := v.m.OpenStreamSync(ctx)
	if err != nil {
		return -1, verifSMErrClass(err)
	}
	return int64(s.StreamID()), 0
}

func (v *VerifSM) Accept(ctx context.Context, uni bool) (int64, int) {
	if uni {
		s, err := v.m.AcceptUniStream(ctx)
		if err != nil {
			return -1, verifSMErrClass(err)
		}
		return int64(s.StreamID()), 0
	}
	s, err := v.m.AcceptStream(ctx)
	if err != nil {
		return -1, verifSMErrClass(err)
	}
	return int64(s.StreamID()), 0
}

func (v *VerifSM) Delete(id int64) int { return verifSMErrClass(v.m.DeleteStream(protocol.StreamID(id))) }

func (v *VerifSM) MaxStreams(uni bool, n int64) {
	t := protocol.StreamTypeBidi
	if uni {
		t = protocol.StreamTypeUni
	}
	v.m.HandleMaxStreamsFrame(&wire.MaxStreamsFrame{Type: t, MaxStreamNum: protocol.StreamNum(n)})
}

func (v *VerifSM) TransportParams(nb, nu int64, resetStreamAt bool) {
	v.m.HandleTransportParameters(&wire.TransportParameters{
		MaxBidiStreamNum: protocol.StreamNum(nb), MaxUniStreamNum: protocol.StreamNum(nu),
		InitialMaxStreamDataBidiRemote: 1 << 16, InitialMaxStreamDataUni: 1 << 16,
		EnableResetStreamAt: resetStreamAt,
	})
}

// ResetStreamAtSnapshot: the map's supportsResetStreamAt (given to new streams) and the IDs of
// the open outgoing streams whose send side has the extension switched on, ascending.
func (v *VerifSM) ResetStreamAtSnapshot() (bool, []int64) {
	var ids []int64
	ob, ou := v.m.outgoingBidiStreams, v.m.outgoingUniStreams
	ob.mutex.RLock()
	for id, str := range ob.streams {
		str.sendStr.mutex.Lock()
		if str.sendStr.supportsResetStreamAt {
			ids = append(ids, int64(id))
		}
		str.sendStr.mutex.Unlock()
	}
	ob.mutex.RUnlock()
	ou.mutex.RLock()
	for id, str := range ou.streams {
		str.mutex.Lock()
		if str.supportsResetStreamAt {
			ids = append(ids, int64(id))
		}
		str.mutex.Unlock()
	}
	ou.mutex.RUnlock()
	sort.Slice(ids, func(i, j int) bool { return ids[i] < ids[j] })
	return v.m.supportsResetStreamAt, ids
}

// Recv / Send are the dispatch functions every receive-side / send-side frame handler
// goes through. Result: ID of the stream that was returned, or -1 for nil ("already deleted").
func (v *VerifSM) Recv(id int64) (int64, int) {
	s, err := v.m.getReceiveStream(protocol.StreamID(id))
	if err != nil {
		return -1, verifSMErrClass(err)
	}
	switch t := s.(type) {
	case nil:
		return -1, 0
	case *Stream:
		if t == nil {
			return -1, 0
		}
		return int64(t.StreamID()), 0
	case *ReceiveStream:
		if t == nil {
			return -1, 0
		}
		return int64(t.StreamID()), 0
	}
	return -2, 0
}

func (v *VerifSM) Send(id int64) (int64, int) {
	s, err := v.m.getSendStream(protocol.StreamID(id))
	if err != nil {
		return -1, verifSMErrClass(err)
	}
	switch t := s.(type) {
	case nil:
		return -1, 0
	case *Stream:
		if t == nil {
			return -1, 0
		}
		return int64(t.StreamID()), 0
	case *SendStream:
		if t == nil {
			return -1, 0
		}
		return int64(t.StreamID()), 0
	}
	return -2, 0
}

// HandleStreamDataBlocked / HandleMaxStreamData: the exported frame handlers with the
// least side effects on the stream itself (used to check they agree with Recv / Send).
func (v *VerifSM) HandleStreamDataBlocked(id int64) int {
	return verifSMErrClass(v.m.HandleStreamDataBlockedFrame(&wire.StreamDataBlockedFrame{StreamID: protocol.StreamID(id), MaximumStreamData: 1}))
}

func (v *VerifSM) HandleMaxStreamData(id int64) int {
	return verifSMErrClass(v.m.HandleMaxStreamDataFrame(&wire.MaxStreamDataFrame{StreamID: protocol.StreamID(id), MaximumStreamData: 1}))
}

func (v *VerifSM) Close()    { v.m.CloseWithError(errVerifSMClosed) }
func (v *VerifSM) Reset()    { v.m.ResetFor0RTT() }
func (v *VerifSM) UseReset() { v.m.UseResetMaps() }

// VerifSMIn / VerifSMOut: snapshot of the fields the property is about.
type VerifSMIn struct {
	NextAccept, NextOpen, Max int64
	MaxNum                    uint64
	Streams                   [][2]int64 // (id, shouldDelete) sorted by id
	Closed                    bool
}

type VerifSMOut struct {
	Next, Max   int64
	BlockedSent bool
	Streams     []int64 // sorted
	Queue       []chan struct{}
	Tokens      []int // len() of each queued channel
	Closed      bool
}

func verifSnapIn[T incomingStream](m *incomingStreamsMap[T]) VerifSMIn {
	m.mutex.RLock()
	defer m.mutex.RUnlock()
	s := VerifSMIn{NextAccept: int64(m.nextStreamToAccept), NextOpen: int64(m.nextStreamToOpen), Max: int64(m.maxStream),
		MaxNum: m.maxNumStreams, Closed: m.closeErr != nil}
	for id, e := range m.streams {
		d := int64(0)
		if e.shouldDelete {
			d = 1
		}
		s.Streams = append(s.Streams, [2]int64{int64(id), d})
	}
	sort.Slice(s.Streams, func(i, j int) bool { return s.Streams[i][0] < s.Streams[j][0] })
	return s
}

func verifSnapOut[T outgoingStream](m *outgoingStreamsMap[T]) VerifSMOut {
	m.mutex.RLock()
	defer m.mutex.RUnlock()
	s := VerifSMOut{Next: int64(m.nextStream), Max: int64(m.maxStream), BlockedSent: m.blockedSent, Closed: m.closeErr != nil}
	for id := range m.streams {
		s.Streams = append(s.Streams, int64(id))
	}
	sort.Slice(s.Streams, func(i, j int) bool { return s.Streams[i] < s.Streams[j] })
	for _, c := range m.openQueue {
		s.Queue = append(s.Queue, c)
		s.Tokens = append(s.Tokens, len(c))
	}
	return s
}

func (v *VerifSM) SnapIn(uni bool) VerifSMIn {
	if uni {
		return verifSnapIn(v.m.incomingUniStreams)
	}
	return verifSnapIn(v.m.incomingBidiStreams)
}

func (v *VerifSM) SnapOut(uni bool) VerifSMOut {
	if uni {
		return verifSnapOut(v.m.outgoingUniStreams)
	}
	return verifSnapOut(v.m.outgoingBidiStreams)
}

func (v *VerifSM) IsReset() bool { v.m.mutex.Lock(); defer v.m.mutex.Unlock(); return v.m.reset }

// VerifSMConsts: constants of internal/protocol/stream.go for coq/Gen/Params.v.
func VerifSMConsts() [][2]any {
	return [][2]any{
		{"SM_FirstOutgoingBidiStreamClient", int64(protocol.FirstOutgoingBidiStreamClient)},
		{"SM_FirstOutgoingUniStreamClient", int64(protocol.FirstOutgoingUniStreamClient)},
		{"SM_FirstOutgoingBidiStreamServer", int64(protocol.FirstOutgoingBidiStreamServer)},
		{"SM_FirstOutgoingUniStreamServer", int64(protocol.FirstOutgoingUniStreamServer)},
		{"SM_FirstIncomingBidiStreamClient", int64(protocol.FirstIncomingBidiStreamClient)},
		{"SM_FirstIncomingUniStreamClient", int64(protocol.FirstIncomingUniStreamClient)},
		{"SM_FirstIncomingBidiStreamServer", int64(protocol.FirstIncomingBidiStreamServer)},
		{"SM_FirstIncomingUniStreamServer", int64(protocol.FirstIncomingUniStreamServer)},
		{"SM_InvalidStreamID", int64(protocol.InvalidStreamID)},
		{"SM_InvalidStreamNum", int64(protocol.InvalidStreamNum)},
		{"SM_MaxStreamCount", int64(protocol.MaxStreamCount)},
		{"SM_MaxStreamID", int64(protocol.MaxStreamID)},
	}
}

// VerifSMResetStreamAtProbe replays what a 0-RTT client does: restored transport parameters,
// a stream opened and written to before the handshake completes, then the server's real
// transport parameters, which carry reset_stream_at iff peerEnables. The application marks the
// written data as reliable and cancels the stream. Returns the ReliableSize of the RESET_STREAM
// frame the stream queues (> 0 means it goes out as RESET_STREAM_AT), or -1 if no frame was queued.
func VerifSMResetStreamAtProbe(uni, restoredEnables, peerEnables bool) int64 {
	v := NewVerifSM(true, 10, 10)
	tp := func(enable bool) *wire.TransportParameters {
		return &wire.TransportParameters{
			MaxBidiStreamNum: 3, MaxUniStreamNum: 3,
			InitialMaxStreamDataBidiRemote: 1 << 16, InitialMaxStreamDataUni: 1 << 16, InitialMaxData: 1 << 20,
			EnableResetStreamAt: enable,
		}
	}
	v.m.HandleTransportParameters(tp(restoredEnables)) // restoreTransportParameters
	var ss *SendStream
	if uni {
		s, err := v.m.OpenUniStream()
		if err != nil {
			return -2
		}
		ss = s
	} else {
		s, err := v.m.OpenStream()
		if err != nil {
			return -2
		}
		ss = s.sendStr
	}
	if _, err := ss.Write([]byte("0-RTT data")); err != nil {
		return -3
	}
	v.m.HandleTransportParameters(tp(peerEnables)) // applyTransportParameters after the handshake
	ss.SetReliableBoundary()
	ss.CancelWrite(7)
	f, ok, _ := ss.getControlFrame(0)
	if !ok {
		return -1
	}
	rs, isReset := f.Frame.(*wire.ResetStreamFrame)
	if !isReset {
		return -4
	}
	return int64(rs.ReliableSize)
}
