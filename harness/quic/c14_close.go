//go:build verif

package quic

import (
	"context"
	"net"
	"time"

	"github.com/refraction-networking/uquic/internal/ackhandler"
	"github.com/refraction-networking/uquic/internal/handshake"
	"github.com/refraction-networking/uquic/internal/monotime"
	"github.com/refraction-networking/uquic/internal/protocol"
	"github.com/refraction-networking/uquic/internal/qerr"
	"github.com/refraction-networking/uquic/internal/utils"
	tls "github.com/refraction-networking/utls"
)

// C14 (closing an unvalidated connection): a real server-side Conn (newConnection, as the server
// creates it) whose sentPacketHandler the `amplification` unit drives, closed by the real
// Conn.handleCloseError; what it writes goes to a recording sendConn, and the closed-connection
// handler it installs is created by the real packetHandlerMap.ReplaceWithClosed. Add-only.

type verifC14SendConn struct{ writes []int }

func (s *verifC14SendConn) Write(b []byte, _ uint16, _ protocol.ECN) error {
	s.writes = append(s.writes, len(b))
	return nil
}
func (s *verifC14SendConn) WriteTo([]byte, net.Addr) error { return nil }
func (s *verifC14SendConn) Close() error                   { return nil }
func (s *verifC14SendConn) LocalAddr() net.Addr {
	return &net.UDPAddr{IP: net.IPv4(127, 0, 0, 1), Port: 443}
}
func (s *verifC14SendConn) RemoteAddr() net.Addr {
	return &net.UDPAddr{IP: net.IPv4(10, 0, 0, 1), Port: 1000}
}
func (s *verifC14SendConn) ChangeRemoteAddr(net.Addr, packetInfo) {}
func (s *verifC14SendConn) capabilities() connCapabilities        { return connCapabilities{} }

// verifC14Runner forwards ReplaceWithClosed to a real packetHandlerMap (with a long expiry, so
// that no clean-up timer fires while the harness runs).
type verifC14Runner struct {
	m        *packetHandlerMap
	ids      []protocol.ConnectionID
	replaced bool
}

func (r *verifC14Runner) Add(protocol.ConnectionID, packetHandler) bool { return true }
func (r *verifC14Runner) Remove(protocol.ConnectionID)                  {}
func (r *verifC14Runner) ReplaceWithClosed(ids []protocol.ConnectionID, pkt []byte, _ time.Duration) {
	r.replaced = true
	r.ids = ids
	r.m.ReplaceWithClosed(ids, pkt, 24*time.Hour)
}
func (r *verifC14Runner) AddResetToken(protocol.StatelessResetToken, packetHandler) {}
func (r *verifC14Runner) RemoveResetToken(protocol.StatelessResetToken)             {}

type verifC14Packer struct {
	packer
	size int
}

func (p *verifC14Packer) pack() (*coalescedPacket, error) {
	b := getPacketBuffer()
	b.Data = append(b.Data, make([]byte, p.size)...)
	return &coalescedPacket{buffer: b}, nil
}
func (p *verifC14Packer) PackConnectionClose(*qerr.TransportError, protocol.ByteCount, protocol.Version) (*coalescedPacket, error) {
	return p.pack()
}
func (p *verifC14Packer) PackApplicationClose(*qerr.ApplicationError, protocol.ByteCount, protocol.Version) (*coalescedPacket, error) {
	return p.pack()
}

// VerifC14Conn is a server connection as baseServer.handleInitialImpl creates it (not run).
type VerifC14Conn struct {
	conn   *Conn
	sc     *verifC14SendConn
	runner *verifC14Runner
	tr     *Transport
}

func VerifNewC14Conn(clientAddressValidated bool) *VerifC14Conn {
	tr := &Transport{}
	tr.handlers = make(map[protocol.ConnectionID]packetHandler)
	tr.closeQueue = make(chan closePacket, 64)
	tr.logger = utils.DefaultLogger
	runner := &verifC14Runner{m: (*packetHandlerMap)(tr)}
	sc := &verifC14SendConn{}
	ctx, cancel := context.WithCancelCause(context.Background())
	wc := newConnection(ctx, cancel, sc, runner,
		protocol.ParseConnectionID([]byte{1, 2, 3, 4, 5, 6, 7, 8}), nil,
		protocol.ParseConnectionID([]byte{1, 2, 3, 4, 5, 6, 7, 8}), protocol.ParseConnectionID([]byte{9, 9, 9, 9}),
		protocol.ParseConnectionID([]byte{4, 3, 2, 1}),
		&protocol.DefaultConnectionIDGenerator{ConnLen: 4}, newStatelessResetter(nil),
		populateConfig(&Config{DisablePathMTUDiscovery: true}), &tls.Config{},
		handshake.NewTokenGenerator(handshake.TokenProtectorKey{}), clientAddressValidated, 0, nil,
		utils.DefaultLogger, protocol.Version1)
	return &VerifC14Conn{conn: wc.Conn, sc: sc, runner: runner, tr: tr}
}

// Handler is the connection's own sentPacketHandler.
func (v *VerifC14Conn) Handler() ackhandler.SentPacketHandler { return v.conn.sentPacketHandler }

// Close runs the real handleCloseError for a local application close whose CONNECTION_CLOSE
// datagram would be `size` bytes. Returns the number of bytes written to the socket and whether a
// retransmitting closed-connection handler (closedLocalConn) was installed.
func (v *VerifC14Conn) Close(handshakeComplete bool, size int) (written int, retransmitting bool) {
	v.conn.handshakeComplete = handshakeComplete
	v.conn.packer = &verifC14Packer{packer: v.conn.packer, size: size}
	v.conn.handleCloseError(&closeError{err: &qerr.ApplicationError{ErrorCode: 7, ErrorMessage: "verif"}})
	for _, w := range v.sc.writes {
		written += w
	}
	if v.runner.replaced && len(v.runner.ids) > 0 {
		_, retransmitting = v.tr.handlers[v.runner.ids[0]].(*closedLocalConn)
	}
	return written, retransmitting
}

// ClosedRecv delivers an n-byte datagram for the closed connection to whatever handler the
// transport now has for its connection ID; returns the bytes it queued for sending in response.
func (v *VerifC14Conn) ClosedRecv(n int) (queued int) {
	if !v.runner.replaced || len(v.runner.ids) == 0 {
		return 0
	}
	h := v.tr.handlers[v.runner.ids[0]]
	h.handlePacket(receivedPacket{remoteAddr: v.sc.RemoteAddr(), data: make([]byte, n)})
	for {
		select {
		case p := <-v.tr.closeQueue:
			queued += len(p.payload)
		default:
			return queued
		}
	}
}

// ---- coalesced datagrams (Conn.handleOnePacket credits a datagram's size exactly once) ----

// VerifC14Part describes one coalesced part: Type 0 Initial, 1 0-RTT, 2 Handshake (a parseable
// long header with a payload that cannot decrypt), -1 garbage without the long-header bit.
type VerifC14Part struct {
	Type int
	Size int
}

// VerifC14CoalescedDatagram lays out QUIC v1 long-header packets with the given destination
// connection ID back to back; payload bytes come from fill. A part too small for a header
// becomes garbage.
func VerifC14CoalescedDatagram(dcid []byte, parts []VerifC14Part, fill func(n int) []byte) []byte {
	var out []byte
	scid := []byte{0xc1, 0x4c, 0x14, 0x01}
	for _, pt := range parts {
		hdrLen := 1 + 4 + 1 + len(dcid) + 1 + len(scid) + 2
		if pt.Type == 0 {
			hdrLen++ // token length
		}
		if pt.Type < 0 || pt.Size < hdrLen+1 || pt.Size-hdrLen >= 1<<14 {
			g := fill(pt.Size)
			if len(g) > 0 {
				g[0] &= 0x3f // neither long header nor a valid fixed bit pattern we care about
			}
			out = append(out, g...)
			continue
		}
		b := []byte{0xc0 | byte(pt.Type)<<4 | 0x03, 0, 0, 0, 1, byte(len(dcid))}
		b = append(b, dcid...)
		b = append(b, byte(len(scid)))
		b = append(b, scid...)
		if pt.Type == 0 {
			b = append(b, 0)
		}
		l := pt.Size - hdrLen
		b = append(b, 0x40|byte(l>>8), byte(l))
		b = append(b, fill(l)...)
		out = append(out, b...)
	}
	return out
}

// DCID is the connection ID the client's first Initial was addressed to.
func (v *VerifC14Conn) DCID() []byte { return []byte{1, 2, 3, 4, 5, 6, 7, 8} }

// StatsBytesReceived is ConnectionStats.BytesReceived.
func (v *VerifC14Conn) StatsBytesReceived() uint64 { return v.conn.connStats.BytesReceived.Load() }

// HandleDatagram passes one UDP datagram to the connection the way the transport and the run loop do:
// Conn.handlePacket (queue) then Conn.handlePackets (which calls handleOnePacket); returns
// ConnectionStats.BytesReceived afterwards.
func (v *VerifC14Conn) HandleDatagram(data []byte, rcvTime int64) (statsBytesReceived uint64, err error) {
	buf := getPacketBuffer()
	buf.Data = append(buf.Data[:0], data...)
	v.conn.handlePacket(receivedPacket{buffer: buf, remoteAddr: v.sc.RemoteAddr(), rcvTime: monotime.Time(rcvTime), data: buf.Data})
	_, err = v.conn.handlePackets()
	return v.conn.connStats.BytesReceived.Load(), err
}

// QueuedUndecryptable: how many packets wait for keys, and their sizes.
func (v *VerifC14Conn) QueuedUndecryptable() (sizes []int) {
	for _, p := range v.conn.undecryptablePackets {
		sizes = append(sizes, len(p.data))
	}
	return sizes
}

// ReadKeysAvailable does what the connection does when the crypto setup reports new read keys:
// handleHandshakeEvents (EventReceivedReadKeys) moves the buffered undecryptable packets to
// undecryptablePacketsToProcess, and the next iteration of the run loop passes each of them to handleOnePacket
// again (connection.go, "1st: handle undecryptable packets"). The keys themselves do not exist here, so
// Handshake-/0-RTT-looking packets stay undecryptable and are buffered again, as junk would be.
func (v *VerifC14Conn) ReadKeysAvailable() (statsBytesReceived uint64, err error) {
	c := v.conn
	c.undecryptablePacketsToProcess = append(c.undecryptablePacketsToProcess, c.undecryptablePackets...)
	c.undecryptablePackets = nil
	queue := c.undecryptablePacketsToProcess
	c.undecryptablePacketsToProcess = nil
	for _, p := range queue {
		if _, err = c.handleOnePacket(p.receivedPacket, p.datagramID); err != nil {
			break
		}
	}
	return c.connStats.BytesReceived.Load(), err
}
