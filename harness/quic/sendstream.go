//go:build verif

package quic

// Verification harness for send_stream.go (unit `sendstream`, property C01).
// Add-only: calls the unexported constructor and methods of SendStream with a counting
// fake streamSender and the REAL stream + connection flow controllers, and exposes the
// state fields that are the property's subject (writeOffset, retransmission queue,
// outstanding counter, FIN / completion flags) for observation.

import (
	"context"
	"errors"

	"github.com/refraction-networking/uquic/internal/ackhandler"
	"github.com/refraction-networking/uquic/internal/flowcontrol"
	"github.com/refraction-networking/uquic/internal/monotime"
	"github.com/refraction-networking/uquic/internal/protocol"
	"github.com/refraction-networking/uquic/internal/utils"
	"github.com/refraction-networking/uquic/internal/wire"
)

// VerifSSConsts are the constants the SendStream model reads from Gen/Params.v.
func VerifSSConsts() [][2]any {
	return [][2]any{
		{"ssMaxPacketBufferSize", int64(protocol.MaxPacketBufferSize)},
		{"ssMinStreamFrameSize", int64(protocol.MinStreamFrameSize)},
		{"dgMaxSendQueueLen", int64(maxDatagramSendQueueLen)},
		{"dgMaxRcvQueueLen", int64(maxDatagramRcvQueueLen)},
	}
}

type verifSSSender struct {
	HasData, HasCtrl, Completed, HasConnData int
}

func (s *verifSSSender) onHasConnectionData()                           { s.HasConnData++ }
func (s *verifSSSender) onHasStreamData(protocol.StreamID, *SendStream) { s.HasData++ }
func (s *verifSSSender) onHasStreamControlFrame(protocol.StreamID, streamControlFrameGetter) {
	s.HasCtrl++
}
func (s *verifSSSender) onStreamCompleted(protocol.StreamID) { s.Completed++ }

// VerifSendStream wraps one real SendStream.
type VerifSendStream struct {
	S      *SendStream
	Sender *verifSSSender
	cfc    flowcontrol.ConnectionFlowController
}

// VerifSSFrame is a popped STREAM frame together with its ack handler.
type VerifSSFrame struct {
	f ackhandler.StreamFrame
}

func (h *VerifSSFrame) Offset() int64 { return int64(h.f.Frame.Offset) }
func (h *VerifSSFrame) Fin() bool     { return h.f.Frame.Fin }
func (h *VerifSSFrame) Data() []byte  { return append([]byte{}, h.f.Frame.Data...) }
func (h *VerifSSFrame) StreamID() int64 {
	return int64(h.f.Frame.StreamID)
}
func (h *VerifSSFrame) DataLenPresent() bool { return h.f.Frame.DataLenPresent }

// SetDataLenPresent mimics the framer, which clears the flag on the last frame of a packet.
func (h *VerifSSFrame) SetDataLenPresent(b bool) { h.f.Frame.DataLenPresent = b }
func (h *VerifSSFrame) Length() int64            { return int64(h.f.Frame.Length(protocol.Version1)) }
func (h *VerifSSFrame) Acked()                   { h.f.Handler.OnAcked(h.f.Frame) }
func (h *VerifSSFrame) Lost()                    { h.f.Handler.OnLost(h.f.Frame) }

// VerifSSReset is a popped RESET_STREAM(_AT) frame with its handler.
type VerifSSReset struct {
	f ackhandler.Frame
}

func (h *VerifSSReset) Fields() (finalSize, code, reliableSize int64) {
	r := h.f.Frame.(*wire.ResetStreamFrame)
	return int64(r.FinalSize), int64(r.ErrorCode), int64(r.ReliableSize)
}
func (h *VerifSSReset) Acked() { h.f.Handler.OnAcked(h.f.Frame) }
func (h *VerifSSReset) Lost()  { h.f.Handler.OnLost(h.f.Frame) }

func VerifNewSendStream(sid int64, supportsResetStreamAt bool, streamWin, connWin int64) *VerifSendStream {
	rtt := utils.NewRTTStats()
	cfc := flowcontrol.NewConnectionFlowController(1<<20, 1<<20, func(protocol.ByteCount) bool { return true }, rtt, utils.DefaultLogger)
	cfc.UpdateSendWindow(protocol.ByteCount(connWin))
	fc := flowcontrol.NewStreamFlowController(protocol.StreamID(sid), cfc, 1<<20, 1<<20, protocol.ByteCount(streamWin), rtt, utils.DefaultLogger)
	snd := &verifSSSender{}
	s := newSendStream(context.Background(), protocol.StreamID(sid), snd, fc, supportsResetStreamAt)
	return &VerifSendStream{S: s, Sender: snd, cfc: cfc}
}

// VerifSSErrClass maps the errors of Write/Close to a small enum:
// 0 nil, 1 local StreamError, 2 remote StreamError, 3 shutdown error, 4 other (closed stream), 5 deadline.
func VerifSSErrClass(err error) (cls int, code int64) {
	if err == nil {
		return 0, 0
	}
	var se *StreamError
	if errors.As(err, &se) {
		if se.Remote {
			return 2, int64(se.ErrorCode)
		}
		return 1, int64(se.ErrorCode)
	}
	if errors.Is(err, errVerifShutdownSS) {
		return 3, 0
	}
	if errors.Is(err, errDeadline) {
		return 5, 0
	}
	return 4, 0
}

var errVerifShutdownSS = errors.New("verif: shutdown")

func (v *VerifSendStream) Write(p []byte) (int, error) { return v.S.Write(p) }
func (v *VerifSendStream) Close() error                { return v.S.Close() }
func (v *VerifSendStream) CancelWrite(code int64)      { v.S.CancelWrite(StreamErrorCode(code)) }
func (v *VerifSendStream) SetReliableBoundary()        { v.S.SetReliableBoundary() }
func (v *VerifSendStream) EnableResetStreamAt()        { v.S.enableResetStreamAt() }
func (v *VerifSendStream) Shutdown()                   { v.S.closeForShutdown(errVerifShutdownSS) }
func (v *VerifSendStream) StopSending(code int64) {
	v.S.handleStopSendingFrame(&wire.StopSendingFrame{StreamID: v.S.streamID, ErrorCode: StreamErrorCode(code)})
}
func (v *VerifSendStream) UpdateSendWindow(limit int64) {
	v.S.updateSendWindow(protocol.ByteCount(limit))
}
func (v *VerifSendStream) UpdateConnSendWindow(limit int64) {
	v.cfc.UpdateSendWindow(protocol.ByteCount(limit))
}

// Pop calls popStreamFrame (QUIC v1; the version does not influence STREAM frames).
func (v *VerifSendStream) Pop(maxBytes int64) (fr *VerifSSFrame, blocked bool, blockedAt int64, hasMore bool) {
	f, b, more := v.S.popStreamFrame(protocol.ByteCount(maxBytes), protocol.Version1)
	if f.Frame != nil {
		fr = &VerifSSFrame{f: f}
	}
	if b != nil {
		blocked, blockedAt = true, int64(b.MaximumStreamData)
	}
	return fr, blocked, blockedAt, more
}

func (v *VerifSendStream) GetControlFrame() (*VerifSSReset, bool, bool) {
	f, ok, more := v.S.getControlFrame(monotime.Now())
	if !ok {
		return nil, false, more
	}
	return &VerifSSReset{f: f}, true, more
}

// VerifSSSnapshot: the state fields that are the subject of C01 on the sender side.
type VerifSSSnapshot struct {
	WriteOffset, NumOutstanding, ReliableSize int64
	Retrans                                   [][3]int64 // offset, len, fin
	FinishedWriting, FinSent, Completed       bool
	Reset, Shutdown, CancellationFlagged      bool
	NextFrameLen, PendingLen                  int64
	QueuedReset                               bool
}

func (v *VerifSendStream) Snapshot() VerifSSSnapshot {
	s := v.S
	// after a panic inside a critical section the mutex stays locked for ever: never block on it
	if !s.mutex.TryLock() {
		return VerifSSSnapshot{}
	}
	defer s.mutex.Unlock()
	sn := VerifSSSnapshot{
		WriteOffset: int64(s.writeOffset), NumOutstanding: s.numOutstandingFrames, ReliableSize: int64(s.reliableSize),
		FinishedWriting: s.finishedWriting, FinSent: s.finSent, Completed: s.completed,
		Reset: s.resetErr != nil, Shutdown: s.shutdownErr != nil, CancellationFlagged: s.cancellationFlagged,
		PendingLen: int64(len(s.dataForWriting)), QueuedReset: s.queuedResetStreamFrame != nil,
	}
	if s.nextFrame != nil {
		sn.NextFrameLen = int64(s.nextFrame.DataLen())
	}
	for _, f := range s.retransmissionQueue {
		fin := int64(0)
		if f.Fin {
			fin = 1
		}
		sn.Retrans = append(sn.Retrans, [3]int64{int64(f.Offset), int64(f.DataLen()), fin})
	}
	return sn
}

// RetransData returns copies of the queued retransmission payloads (for the coverage monitor).
func (v *VerifSendStream) RetransData() [][]byte {
	s := v.S
	s.mutex.Lock()
	defer s.mutex.Unlock()
	var out [][]byte
	for _, f := range s.retransmissionQueue {
		out = append(out, append([]byte{}, f.Data...))
	}
	return out
}

// NextFrameData returns a copy of the buffered nextFrame (offset, data).
func (v *VerifSendStream) NextFrameData() (int64, []byte, bool) {
	s := v.S
	s.mutex.Lock()
	defer s.mutex.Unlock()
	if s.nextFrame == nil {
		return 0, nil, false
	}
	return int64(s.nextFrame.Offset), append([]byte{}, s.nextFrame.Data...), true
}

// VerifPeerReaction feeds STREAM frames and (optionally) a RESET_STREAM(_AT) frame to a REAL
// ReceiveStream with real flow controllers (what this implementation does as the peer) and
// returns the first error any handler reports ("" = accepted). resetAt is the index in
// frames before which the reset frame is delivered (len(frames) = last).
func VerifPeerReaction(sid int64, frames []struct {
	Off  int64
	Data []byte
	Fin  bool
}, reset *[3]int64, resetAt int) string {
	rtt := utils.NewRTTStats()
	cfc := flowcontrol.NewConnectionFlowController(1<<20, 1<<20, func(protocol.ByteCount) bool { return true }, rtt, utils.DefaultLogger)
	fc := flowcontrol.NewStreamFlowController(protocol.StreamID(sid), cfc, 1<<20, 1<<20, 1<<20, rtt, utils.DefaultLogger)
	rs := newReceiveStream(protocol.StreamID(sid), &verifSSSender{}, fc)
	now := monotime.Now()
	deliverReset := func() error {
		return rs.handleResetStreamFrame(&wire.ResetStreamFrame{StreamID: protocol.StreamID(sid), FinalSize: protocol.ByteCount(reset[0]),
			ErrorCode: StreamErrorCode(reset[1]), ReliableSize: protocol.ByteCount(reset[2])}, now)
	}
	for i, f := range frames {
		if reset != nil && i == resetAt {
			if err := deliverReset(); err != nil {
				return err.Error()
			}
		}
		if err := rs.handleStreamFrame(&wire.StreamFrame{StreamID: protocol.StreamID(sid), Offset: protocol.ByteCount(f.Off),
			Data: append([]byte{}, f.Data...), Fin: f.Fin, DataLenPresent: true}, now); err != nil {
			return err.Error()
		}
	}
	if reset != nil && resetAt >= len(frames) {
		if err := deliverReset(); err != nil {
			return err.Error()
		}
	}
	return ""
}
