//go:build verif

package quic

import (
	"context"
	"fmt"
	tls "github.com/refraction-networking/utls"
	"net"
	"time"

	"github.com/refraction-networking/uquic/internal/ackhandler"
	"github.com/refraction-networking/uquic/internal/handshake"
	"github.com/refraction-networking/uquic/internal/monotime"
	"github.com/refraction-networking/uquic/internal/protocol"
	"github.com/refraction-networking/uquic/internal/qerr"
	"github.com/refraction-networking/uquic/internal/utils"
	"github.com/refraction-networking/uquic/internal/wire"
)

// Verification harness for property C20: the pacing / congestion glue of the connection's send
// path — Conn.triggerSending, sendPackets, sendPacketsWithoutGSO, resetPacingDeadline — on a Conn
// constructed the way the server constructs it (newConnection), not running. The sent packet
// handler is the REAL one (real Reno sender and pacer) behind a thin recorder; the packer and the
// send queue are fakes (packing needs 1-RTT keys): the packer hands out full-size ack-eliciting
// 1-RTT packets as long as the harness says there is data.

type verifC20PaceSendConn struct{ local, remote net.Addr }

func (c *verifC20PaceSendConn) Write([]byte, uint16, protocol.ECN) error { return nil }
func (c *verifC20PaceSendConn) WriteTo([]byte, net.Addr) error           { return nil }
func (c *verifC20PaceSendConn) Close() error                             { return nil }
func (c *verifC20PaceSendConn) LocalAddr() net.Addr                      { return c.local }
func (c *verifC20PaceSendConn) RemoteAddr() net.Addr                     { return c.remote }
func (c *verifC20PaceSendConn) ChangeRemoteAddr(net.Addr, packetInfo)    {}
func (c *verifC20PaceSendConn) capabilities() connCapabilities           { return connCapabilities{} }

type verifC20PaceRunner struct{}

func (verifC20PaceRunner) Add(protocol.ConnectionID, packetHandler) bool                    { return true }
func (verifC20PaceRunner) Remove(protocol.ConnectionID)                                     {}
func (verifC20PaceRunner) ReplaceWithClosed([]protocol.ConnectionID, []byte, time.Duration) {}
func (verifC20PaceRunner) AddResetToken(protocol.StatelessResetToken, packetHandler)        {}
func (verifC20PaceRunner) RemoveResetToken(protocol.StatelessResetToken)                    {}

type verifC20PaceNop struct{}

func (verifC20PaceNop) OnAcked(wire.Frame) {}
func (verifC20PaceNop) OnLost(wire.Frame)  {}

// VerifC20PaceEvent: what the send path did, in order. Kind 0: SendMode answered V; 1: a packet of V
// bytes was registered with SentPacket; 2: TimeUntilSend answered V.
type VerifC20PaceEvent struct {
	Kind int
	V    int64
}

// the recorder around the real handler
type verifC20PaceSPH struct {
	ackhandler.SentPacketHandler
	ev *[]VerifC20PaceEvent
}

func (s verifC20PaceSPH) SendMode(now monotime.Time) ackhandler.SendMode {
	m := s.SentPacketHandler.SendMode(now)
	*s.ev = append(*s.ev, VerifC20PaceEvent{0, int64(m)})
	return m
}

func (s verifC20PaceSPH) TimeUntilSend() monotime.Time {
	t := s.SentPacketHandler.TimeUntilSend()
	*s.ev = append(*s.ev, VerifC20PaceEvent{2, int64(t)})
	return t
}

func (s verifC20PaceSPH) SentPacket(t monotime.Time, pn, la protocol.PacketNumber, sf []ackhandler.StreamFrame, f []ackhandler.Frame,
	enc protocol.EncryptionLevel, ecn protocol.ECN, size protocol.ByteCount, mtu, probe bool,
) {
	s.SentPacketHandler.SentPacket(t, pn, la, sf, f, enc, ecn, size, mtu, probe)
	*s.ev = append(*s.ev, VerifC20PaceEvent{1, int64(size)})
}

type verifC20PacePacker struct {
	v *VerifC20PaceConn
}

func (p *verifC20PacePacker) AppendPacket(buf *packetBuffer, maxSize protocol.ByteCount, _ monotime.Time, _ protocol.Version) (shortHeaderPacket, error) {
	if p.v.Avail <= 0 {
		return shortHeaderPacket{}, errNothingToPack
	}
	p.v.Avail--
	pn := p.v.c.sentPacketHandler.PopPacketNumber(protocol.Encryption1RTT)
	p.v.PNs = append(p.v.PNs, int64(pn))
	buf.Data = append(buf.Data, make([]byte, maxSize)...)
	return shortHeaderPacket{PacketNumber: pn, Frames: []ackhandler.Frame{{Frame: &wire.PingFrame{}, Handler: verifC20PaceNop{}}},
		Length: maxSize, PacketNumberLen: protocol.PacketNumberLen2}, nil
}
func (p *verifC20PacePacker) PackCoalescedPacket(bool, protocol.ByteCount, monotime.Time, protocol.Version) (*coalescedPacket, error) {
	return nil, nil
}
func (p *verifC20PacePacker) PackAckOnlyPacket(protocol.ByteCount, monotime.Time, protocol.Version) (shortHeaderPacket, *packetBuffer, error) {
	p.v.AckOnlyAttempts++
	return shortHeaderPacket{}, nil, errNothingToPack
}
func (p *verifC20PacePacker) PackPTOProbePacket(protocol.EncryptionLevel, protocol.ByteCount, bool, monotime.Time, protocol.Version) (*coalescedPacket, error) {
	return nil, nil
}
func (p *verifC20PacePacker) PackConnectionClose(*qerr.TransportError, protocol.ByteCount, protocol.Version) (*coalescedPacket, error) {
	return nil, nil
}
func (p *verifC20PacePacker) PackApplicationClose(*qerr.ApplicationError, protocol.ByteCount, protocol.Version) (*coalescedPacket, error) {
	return nil, nil
}
func (p *verifC20PacePacker) PackPathProbePacket(protocol.ConnectionID, []ackhandler.Frame, protocol.Version) (shortHeaderPacket, *packetBuffer, error) {
	return shortHeaderPacket{}, nil, errNothingToPack
}
func (p *verifC20PacePacker) PackMTUProbePacket(ackhandler.Frame, protocol.ByteCount, protocol.Version) (shortHeaderPacket, *packetBuffer, error) {
	return shortHeaderPacket{}, nil, errNothingToPack
}
func (p *verifC20PacePacker) SetToken([]byte) {}

type verifC20PaceQueue struct{ sent int }

func (q *verifC20PaceQueue) Send(p *packetBuffer, _ uint16, _ protocol.ECN) { q.sent++; p.Release() }
func (q *verifC20PaceQueue) SendProbe(p *packetBuffer, _ net.Addr)          { p.Release() }
func (q *verifC20PaceQueue) Run() error                                     { return nil }
func (q *verifC20PaceQueue) WouldBlock() bool                               { return false }
func (q *verifC20PaceQueue) Available() <-chan struct{}                     { return nil }
func (q *verifC20PaceQueue) Close()                                         {}

// VerifC20PaceConn is a constructed, not running server connection after the handshake.
type VerifC20PaceConn struct {
	c               *Conn
	ev              []VerifC20PaceEvent
	q               *verifC20PaceQueue
	Avail           int // packets the application has to send
	PNs             []int64
	AckOnlyAttempts int
	real            ackhandler.SentPacketHandler
}

func NewVerifC20PaceConn(initialPacketSize uint16, rttNs int64) (v *VerifC20PaceConn, err error) {
	defer func() {
		if r := recover(); r != nil {
			err = fmt.Errorf("panic: %v", r)
		}
	}()
	conf := populateConfig(&Config{DisablePathMTUDiscovery: true, InitialPacketSize: initialPacketSize})
	sc := &verifC20PaceSendConn{
		local:  &net.UDPAddr{IP: net.IPv4(1, 0, 0, 1), Port: 9001},
		remote: &net.UDPAddr{IP: net.IPv4(1, 0, 0, 2), Port: 9002},
	}
	gen := &protocol.DefaultConnectionIDGenerator{ConnLen: 4}
	ctx, cancel := context.WithCancelCause(context.Background())
	wc := newConnection(ctx, cancel, sc, verifC20PaceRunner{},
		protocol.ParseConnectionID([]byte{1, 2, 3, 4, 5, 6, 7, 8}), nil,
		protocol.ParseConnectionID([]byte{1, 2, 3, 4, 5, 6, 7, 8}), protocol.ParseConnectionID([]byte{9, 9, 9, 9}),
		protocol.ParseConnectionID([]byte{4, 3, 2, 1}), gen, newStatelessResetter(nil),
		conf, &tls.Config{}, handshake.NewTokenGenerator(handshake.TokenProtectorKey{}), true, 0, nil,
		utils.DefaultLogger, protocol.Version1)
	c := wc.Conn
	c.peerParams = &wire.TransportParameters{InitialMaxData: 1 << 30}
	c.handshakeComplete = true
	c.handshakeConfirmed = true
	// the handshake has produced RTT samples (newConnection's SetInitialRTT(0) - no token - leaves a smoothed RTT of 0)
	if rttNs > 0 {
		c.rttStats.UpdateRTT(time.Duration(rttNs), 0)
	}
	v = &VerifC20PaceConn{c: c, q: &verifC20PaceQueue{}}
	// handshake confirmed: Initial and Handshake packet number spaces are gone
	now := monotime.Time(1)
	c.sentPacketHandler.DropPackets(protocol.EncryptionInitial, now)
	c.sentPacketHandler.DropPackets(protocol.EncryptionHandshake, now)
	v.real = c.sentPacketHandler
	c.sentPacketHandler = verifC20PaceSPH{SentPacketHandler: v.real, ev: &v.ev}
	c.packer = &verifC20PacePacker{v: v}
	c.sendQueue = v.q
	return v, nil
}

// Trigger calls Conn.triggerSending(now) with [avail] packets of application data waiting and,
// if hasRecv, a received packet waiting in the connection's queue. It returns what happened.
func (v *VerifC20PaceConn) Trigger(now int64, avail int, hasRecv bool) (ev []VerifC20PaceEvent, sent int, deadline int64, blocked int, ackOnly int, err error) {
	defer func() {
		if r := recover(); r != nil {
			err = fmt.Errorf("panic: %v", r)
		}
	}()
	c := v.c
	v.ev, v.Avail, v.AckOnlyAttempts = nil, avail, 0
	v.q.sent = 0
	c.blocked = blockModeNone
	c.receivedPacketMx.Lock()
	c.receivedPackets.Clear()
	if hasRecv {
		c.receivedPackets.PushBack(receivedPacket{})
	}
	c.receivedPacketMx.Unlock()
	err = c.triggerSending(monotime.Time(now))
	return v.ev, v.q.sent, int64(c.pacingDeadline), int(c.blocked), v.AckOnlyAttempts, err
}

// AckAll acknowledges every packet sent so far and not yet acknowledged (1-RTT space, real handler).
func (v *VerifC20PaceConn) AckAll(now int64) error {
	if len(v.PNs) == 0 {
		return nil
	}
	ack := &wire.AckFrame{}
	for i := len(v.PNs) - 1; i >= 0; i-- {
		pn := protocol.PacketNumber(v.PNs[i])
		if n := len(ack.AckRanges); n > 0 && ack.AckRanges[n-1].Smallest == pn+1 {
			ack.AckRanges[n-1].Smallest = pn
		} else {
			ack.AckRanges = append(ack.AckRanges, wire.AckRange{Smallest: pn, Largest: pn})
		}
	}
	v.PNs = nil
	_, err := v.real.ReceivedAck(ack, protocol.Encryption1RTT, monotime.Time(now))
	return err
}
func (v *VerifC20PaceConn) MaxPacketSize() int64 { return int64(v.c.maxPacketSize()) }

func VerifC20PaceConsts() [][2]any {
	return [][2]any{
		{"pg_deadlineSendImmediately", int64(deadlineSendImmediately)},
		{"pg_blockModeNone", int64(blockModeNone)}, {"pg_blockModeCongestionLimited", int64(blockModeCongestionLimited)},
		{"pg_blockModeHardBlocked", int64(blockModeHardBlocked)},
	}
}
