//go:build verif

package quic

import (
	"context"
	"errors"
	"net"
	"time"

	"github.com/refraction-networking/uquic/internal/handshake"
	"github.com/refraction-networking/uquic/internal/protocol"
	"github.com/refraction-networking/uquic/internal/utils"
	"github.com/refraction-networking/uquic/internal/wire"
	"github.com/refraction-networking/uquic/qlogwriter"
	tls "github.com/refraction-networking/utls"
)

// C14 (stateless replies): everything a server sends towards an address BEFORE a connection
// exists — Version Negotiation, Retry, INVALID_TOKEN / CONNECTION_REFUSED in an Initial, stateless
// reset — driven through the real Transport.handlePacket -> baseServer.handlePacket ->
// handlePacketImpl -> handleInitialImpl and the real senders, with a recording rawConn.
// The goroutines of Transport / baseServer are not started: the harness drains their queues
// with the very functions run() / runSendQueue() call. Add-only.

// VerifC14StatelessConsts feeds the constants translator.
func VerifC14StatelessConsts() [][2]any {
	return [][2]any{
		{"sl_MaxConnIDLen", int64(protocol.MaxConnIDLen)},
		{"sl_MinStatelessResetSize", int64(protocol.MinStatelessResetSize)},
		{"sl_MinInitialPacketSize", int64(protocol.MinInitialPacketSize)},
		{"sl_MinUnknownVersionPacketSize", int64(protocol.MinUnknownVersionPacketSize)},
		{"sl_InvalidToken", int64(InvalidToken)},
		{"sl_ConnectionRefused", int64(ConnectionRefused)},
	}
}

type verifC14RecConn struct{ out [][]byte }

func (c *verifC14RecConn) ReadPacket() (receivedPacket, error) { return receivedPacket{}, net.ErrClosed }
func (c *verifC14RecConn) WritePacket(b []byte, _ net.Addr, _ []byte, _ uint16, _ protocol.ECN) (int, error) {
	c.out = append(c.out, append([]byte{}, b...))
	return len(b), nil
}
func (c *verifC14RecConn) LocalAddr() net.Addr             { return &net.UDPAddr{IP: net.IPv4(127, 0, 0, 1), Port: 443} }
func (c *verifC14RecConn) SetReadDeadline(time.Time) error { return nil }
func (c *verifC14RecConn) Close() error                    { return nil }
func (c *verifC14RecConn) capabilities() connCapabilities  { return connCapabilities{} }

type verifC14NopHandler struct{ n int }

func (h *verifC14NopHandler) handlePacket(p receivedPacket)                  { h.n++; p.buffer.MaybeRelease() }
func (h *verifC14NopHandler) destroy(error)                                  {}
func (h *verifC14NopHandler) closeWithTransportError(TransportErrorCode) {}


// VerifC14StatelessOpts configures the server.
type VerifC14StatelessOpts struct {
	ResetKey     bool
	VerifySrc    int // -1 no callback, 0 false, 1 true
	DisableVN    bool
	AcceptEarly  bool
	Refuse       bool // GetConfigForClient returns an error
	MaxTokenAge  time.Duration
	HsIdle       time.Duration
	ConnIDLen    int
	KnownConnID  []byte // a connection ID that already has a handler
	TokenKey     handshake.TokenProtectorKey
	NumVersions  int // 1: only v1; 2: v1 and v2
}

// VerifC14Stateless is a Transport with a server, not running.
type VerifC14Stateless struct {
	tr       *Transport
	s        *baseServer
	rc       *verifC14RecConn
	known    *verifC14NopHandler
	accepted bool
}

func VerifNewC14Stateless(o VerifC14StatelessOpts) *VerifC14Stateless {
	rc := &verifC14RecConn{}
	tr := &Transport{}
	tr.conn = rc
	tr.connIDLen = o.ConnIDLen
	tr.connIDGenerator = &protocol.DefaultConnectionIDGenerator{ConnLen: o.ConnIDLen}
	tr.handlers = make(map[protocol.ConnectionID]packetHandler)
	tr.resetTokens = make(map[protocol.StatelessResetToken]packetHandler)
	tr.closeQueue = make(chan closePacket, 4)
	tr.statelessResetQueue = make(chan receivedPacket, 4)
	tr.logger = utils.DefaultLogger
	if o.ResetKey {
		k := StatelessResetKey{1, 2, 3, 4, 5, 6, 7, 8}
		tr.StatelessResetKey = &k
	}
	tr.statelessResetter = newStatelessResetter(tr.StatelessResetKey)
	v := &VerifC14Stateless{tr: tr, rc: rc, known: &verifC14NopHandler{}}
	if o.KnownConnID != nil {
		tr.handlers[protocol.ParseConnectionID(o.KnownConnID)] = v.known
	}
	versions := []protocol.Version{protocol.Version1}
	if o.NumVersions >= 2 {
		versions = append(versions, protocol.Version2)
	}
	conf := &Config{HandshakeIdleTimeout: o.HsIdle, Versions: versions}
	if o.Refuse {
		conf.GetConfigForClient = func(*ClientInfo) (*Config, error) { return nil, errors.New("verif: refused") }
	}
	s := &baseServer{
		tr:                        (*packetHandlerMap)(tr),
		config:                    conf,
		conn:                      rc,
		tokenGenerator:            handshake.NewTokenGenerator(o.TokenKey),
		maxTokenAge:               o.MaxTokenAge,
		connIDGenerator:           tr.connIDGenerator,
		acceptEarlyConns:          o.AcceptEarly,
		disableVersionNegotiation: o.DisableVN,
		receivedPackets:           make(chan receivedPacket, 8),
		versionNegotiationQueue:   make(chan receivedPacket, 4),
		invalidTokenQueue:         make(chan rejectedPacket, 4),
		connectionRefusedQueue:    make(chan rejectedPacket, 4),
		retryQueue:                make(chan rejectedPacket, 8),
		logger:                    utils.DefaultLogger,
	}
	if o.AcceptEarly {
		s.zeroRTTQueues = map[protocol.ConnectionID]*zeroRTTQueue{}
	}
	if o.VerifySrc >= 0 {
		s.verifySourceAddress = func(net.Addr) bool { return o.VerifySrc == 1 }
	}
	s.newConn = func(context.Context, context.CancelCauseFunc, sendConn, connRunner,
		protocol.ConnectionID, *protocol.ConnectionID, protocol.ConnectionID, protocol.ConnectionID, protocol.ConnectionID,
		ConnectionIDGenerator, *statelessResetter, *Config, *tls.Config, *handshake.TokenGenerator,
		bool, time.Duration, qlogwriter.Trace, utils.Logger, protocol.Version,
	) *wrappedConn {
		v.accepted = true
		panic(verifC14Sentinel{})
	}
	tr.server = s
	v.s = s
	return v
}

// TokenGenerator is the server's.
func (v *VerifC14Stateless) TokenGenerator() *handshake.TokenGenerator { return v.s.tokenGenerator }

// VerifC14StatelessResult: what one datagram caused.
type VerifC14StatelessResult struct {
	Replies  [][]byte
	Accepted bool // a connection would have been created
	Routed   bool // handed to an existing connection's handler
}

// Handle passes one datagram to the real Transport.handlePacket and performs what the server's and
// the transport's goroutines would do with what got queued.
func (v *VerifC14Stateless) Handle(data []byte, from net.Addr) (res VerifC14StatelessResult) {
	v.rc.out = nil
	v.accepted = false
	routedBefore := v.known.n
	buf := getPacketBuffer()
	buf.Data = append(buf.Data[:0], data...)
	p := receivedPacket{buffer: buf, remoteAddr: from, rcvTime: 1, data: buf.Data}
	func() {
		defer func() {
			if e := recover(); e != nil {
				if _, ok := e.(verifC14Sentinel); !ok {
					panic(e)
				}
			}
		}()
		v.tr.handlePacket(p)
		// baseServer.run
		select {
		case q := <-v.s.receivedPackets:
			if inUse := v.s.handlePacketImpl(q); !inUse {
				q.buffer.Release()
			}
		default:
		}
	}()
	// baseServer.runSendQueue / Transport.runSendQueue
	for more := true; more; {
		select {
		case q := <-v.s.versionNegotiationQueue:
			v.s.maybeSendVersionNegotiationPacket(q)
		case q := <-v.s.invalidTokenQueue:
			v.s.maybeSendInvalidToken(q)
		case q := <-v.s.connectionRefusedQueue:
			v.s.sendConnectionRefused(q)
		case q := <-v.s.retryQueue:
			v.s.sendRetry(q)
		case q := <-v.tr.statelessResetQueue:
			v.tr.sendStatelessReset(q)
		default:
			more = false
		}
	}
	res.Replies = v.rc.out
	res.Accepted = v.accepted
	res.Routed = v.known.n > routedBefore
	return res
}

// VerifC14ClassifyReply: 1 Version Negotiation, 2 Retry, 3 Initial carrying CONNECTION_CLOSE (error code
// returned), 4 short header (stateless reset), 0 anything else.
func VerifC14ClassifyReply(b []byte, clientDCID []byte) (kind int, errorCode uint64) {
	if len(b) == 0 {
		return 0, 0
	}
	if !wire.IsLongHeaderPacket(b[0]) {
		return 4, 0
	}
	if wire.IsVersionNegotiationPacket(b) {
		return 1, 0
	}
	hdr, pdata, _, err := wire.ParsePacket(b)
	if err != nil {
		return 0, 0
	}
	switch hdr.Type {
	case protocol.PacketTypeRetry:
		return 2, 0
	case protocol.PacketTypeInitial:
		_, opener := handshake.NewInitialAEAD(protocol.ParseConnectionID(clientDCID), protocol.PerspectiveClient, hdr.Version)
		cp := append([]byte{}, pdata...)
		_, decrypted, err := (&packetUnpacker{}).unpackLongHeaderPacket(opener, hdr, cp)
		if err != nil || len(decrypted) < 2 || decrypted[0] != 0x1c {
			return 0, 0
		}
		return 3, uint64(decrypted[1])
	}
	return 0, 0
}

// VerifC14Initial builds a correctly protected client Initial packet of exactly `size` bytes
// (PING + PADDING); returns nil if `size` is too small for header + 4-byte packet number + tag + 1.
func VerifC14Initial(version protocol.Version, dcid, scid, token []byte, size int) []byte {
	hdr := &wire.ExtendedHeader{}
	hdr.Type = protocol.PacketTypeInitial
	hdr.Version = version
	hdr.DestConnectionID = protocol.ParseConnectionID(dcid)
	hdr.SrcConnectionID = protocol.ParseConnectionID(scid)
	hdr.Token = token
	hdr.PacketNumberLen = protocol.PacketNumberLen4
	hdrLen := int(hdr.GetLength(version))
	sealer, _ := handshake.NewInitialAEAD(hdr.DestConnectionID, protocol.PerspectiveClient, version)
	payloadLen := size - hdrLen - sealer.Overhead()
	if payloadLen < 1 || 4+payloadLen+sealer.Overhead() >= 1<<14 {
		return nil
	}
	hdr.Length = protocol.ByteCount(4 + payloadLen + sealer.Overhead())
	b, err := hdr.Append(nil, version)
	if err != nil {
		return nil
	}
	payloadOffset := len(b)
	b = append(b, 0x01) // PING
	b = append(b, make([]byte, payloadLen-1)...)
	b = append(b, make([]byte, sealer.Overhead())...)[:payloadOffset+payloadLen]
	_ = sealer.Seal(b[payloadOffset:payloadOffset], b[payloadOffset:], hdr.PacketNumber, b[:payloadOffset])
	b = b[:payloadOffset+payloadLen+sealer.Overhead()]
	pnOffset := payloadOffset - 4
	sealer.EncryptHeader(b[pnOffset+4:pnOffset+4+16], &b[0], b[pnOffset:payloadOffset])
	return b
}

// VerifC14RetryFields parses a Retry packet: its token and its source connection ID.
func VerifC14RetryFields(b []byte) (token, scid []byte, ok bool) {
	hdr, _, _, err := wire.ParsePacket(b)
	if err != nil || hdr.Type != protocol.PacketTypeRetry {
		return nil, nil, false
	}
	return hdr.Token, hdr.SrcConnectionID.Bytes(), true
}
