//go:build verif

package quic

import (
	"bufio"
	"fmt"
	"io"
	"sort"
	"strings"
	"time"

	"github.com/refraction-networking/uquic/internal/flowcontrol"
	"github.com/refraction-networking/uquic/internal/monotime"
	"github.com/refraction-networking/uquic/internal/protocol"
	"github.com/refraction-networking/uquic/internal/qerr"
	"github.com/refraction-networking/uquic/internal/utils"
	u "github.com/refraction-networking/uquic/internal/verifutil"
	"github.com/refraction-networking/uquic/internal/wire"
)

// recvglue unit (C04): correspondence for coq/FlowCtl/RecvModel.v — the completion / credit
// path of ReceiveStream. One real newReceiveStream on a real stream flow controller and a real
// connection flow controller; ops: handleStreamFrame, handleResetStreamFrame(_AT), CancelRead,
// Read (only when it cannot block), getControlFrame. Per op the return values / callbacks, at
// the end the flow-controller counters and the ReceiveStream's own state variables.

type recvGlueFC struct {
	flowcontrol.StreamFlowController
	nAddBytesRead int
	sumRead       int64
}

func (f *recvGlueFC) AddBytesRead(n protocol.ByteCount) (bool, bool) {
	f.nAddBytesRead++
	f.sumRead += int64(n)
	return f.StreamFlowController.AddBytesRead(n)
}

type recvGlueSender struct {
	ctrlCalls, completedCalls int
}

func (s *recvGlueSender) onHasConnectionData()                                {}
func (s *recvGlueSender) onHasStreamData(protocol.StreamID, *SendStream)      {}
func (s *recvGlueSender) onStreamCompleted(protocol.StreamID)                 { s.completedCalls++ }
func (s *recvGlueSender) onHasStreamControlFrame(protocol.StreamID, streamControlFrameGetter) {
	s.ctrlCalls++
}

func rgBool(b bool) int64 {
	if b {
		return 1
	}
	return 0
}

// rgTable is a fixed table case: configuration and op sequence do not depend on the seed.
// step = {kind, a, b}: kind 0 = STREAM frame [a, a+b), 1 = Read(a), 2 = getControlFrame.
type rgTable struct {
	rw, maxrw, cw, cmax int64
	steps               [][3]int64
}

func runRecvGlueCase(w *bufio.Writer, r *u.Rng, caseNo int, dist map[string]int, tab *rgTable) {
	var human []string
	defer func() {
		if e := recover(); e != nil {
			fmt.Fprintf(w, "MONFAIL\trecvglue/panic\tpanic: %v\t%s\n", e, strings.Join(human, " ; "))
		}
	}()
	rtt := utils.NewRTTStats()
	if r.Chance(1, 5) {
		rtt.SetInitialRTT(time.Duration(r.Range(0, 30)) * time.Millisecond)
	}
	now := int64(r.Range(1, 1000)) * 1000000
	small := []int64{4, 8, 10, 16, 33, 100}
	rw := small[r.Intn(len(small))]
	maxrw := rw * int64(r.Range(1, 4))
	cw := small[r.Intn(len(small))] * int64(r.Range(1, 3))
	cmax := cw * int64(r.Range(1, 4))
	if tab != nil {
		rw, maxrw, cw, cmax = tab.rw, tab.maxrw, tab.cw, tab.cmax
	}
	advMax := rw // the largest stream limit put on the wire so far (initial window, MAX_STREAM_DATA)
	allowAns := true
	conn := flowcontrol.NewConnectionFlowController(protocol.ByteCount(cw), protocol.ByteCount(cmax),
		func(protocol.ByteCount) bool { return allowAns }, rtt, utils.DefaultLogger)
	id := protocol.StreamID(3)
	fc := &recvGlueFC{StreamFlowController: flowcontrol.NewStreamFlowController(id, conn, protocol.ByteCount(rw), protocol.ByteCount(maxrw), 0, rtt, utils.DefaultLogger)}
	sender := &recvGlueSender{}
	str := newReceiveStream(id, sender, fc)
	resetAt := r.Chance(2, 3)

	var ops, rets []string
	emit := func(op string, a, b, c int64, h string) {
		ops = append(ops, op)
		rets = append(rets, u.Pair(u.Z(a), u.Z(b), u.Z(c)))
		human = append(human, fmt.Sprintf("%s=>(%d,%d,%d)", h, a, b, c))
	}
	errCode := func(err error) int64 {
		if err == nil {
			return 0
		}
		if te, ok := err.(*qerr.TransportError); ok {
			return int64(te.ErrorCode)
		}
		return -1
	}
	var got []bool
	var hi, appRead, relSize int64
	final := int64(-1)
	cancelled, reset, dead := false, false, false
	contiguous := func() int64 {
		k := appRead
		for k < int64(len(got)) && got[k] {
			k++
		}
		return k - appRead
	}
	nops := r.Range(4, 30)
	if tab != nil {
		nops = len(tab.steps)
	}
	for i := 0; i < nops && !dead; i++ {
		tune := r.Intn(8)
		if tab != nil {
			tune = 7
			now += 1000000 // 1 ms: far below the RTT
		}
		switch tune {
		case 0, 1:
			now += int64(r.Range(0, 400)) * 1000000
		case 2:
			rtt.UpdateRTT(time.Duration(r.Range(1, 300))*time.Millisecond, 0)
		}
		st, _ := flowcontrol.VerifStreamState(fc.StreamFlowController)
		cs := flowcontrol.VerifConnState(conn)
		limit := min(st[flowcontrol.VReceiveWindow], st[flowcontrol.VHighestReceived]+cs[flowcontrol.VReceiveWindow]-cs[flowcontrol.VHighestReceived])
		if final >= 0 {
			limit = min(limit, final)
		}
		c0, d0 := sender.ctrlCalls, sender.completedCalls
		c := r.Intn(20)
		if tab != nil {
			c = []int{0, 8, 19}[tab.steps[i][0]]
		}
		switch {
		case c < 8: // STREAM frame
			var off, n int64
			switch r.Intn(9) {
			case 0:
				off = int64(r.Intn(int(hi) + 1))
				n = int64(r.Intn(int(hi-off) + 1))
			case 1:
				off, n = hi, limit-hi
			case 2:
				off, n = hi, limit-hi
				if r.Chance(1, 5) {
					n++ // one byte beyond the advertised limits
				}
			case 3:
				off = min(hi+int64(r.Range(1, 3)), max(limit, hi))
				n = int64(r.Intn(int(max(limit-off, 0)) + 1))
			default:
				off = hi
				n = int64(r.Intn(int(max(min(limit-off, 30), 0)) + 1))
			}
			if n < 0 {
				n = 0
			}
			fin := r.Chance(1, 6)
			if tab != nil {
				off, n, fin = tab.steps[i][1], tab.steps[i][2], false
			}
			if final >= 0 {
				fin = off+n == final && r.Bool()
			}
			data := make([]byte, n)
			for k := range data {
				data[k] = glueByte(off + int64(k))
			}
			err := str.handleStreamFrame(&wire.StreamFrame{StreamID: id, Offset: protocol.ByteCount(off), Data: data, Fin: fin}, monotime.Time(now))
			emit(u.App("OFrame", u.Z(off), u.Z(n), u.B(fin), u.Z(now)), errCode(err), int64(sender.completedCalls-d0), 0,
				fmt.Sprintf("STREAM[%d,%d)fin=%v", off, off+n, fin))
			if te, ok := err.(*qerr.TransportError); ok && te.ErrorCode == qerr.FlowControlError && off+n <= advMax && max(hi, off+n) <= cw {
				fmt.Fprintf(w, "MONFAIL\trecvglue/rejects-within-advertised\tSTREAM frame up to offset %d answered with FLOW_CONTROL_ERROR, the largest stream limit advertised is %d (connection limit %d)\t%s\n", off+n, advMax, cw, strings.Join(human, " ; "))
			}
			if err != nil {
				dead = true
				break
			}
			for int64(len(got)) < off+n {
				got = append(got, false)
			}
			if !cancelled {
				for k := off; k < off+n; k++ {
					got[k] = true
				}
			}
			hi = max(hi, off+n)
			if fin {
				final = off + n
			}
		case c < 14: // Read, only when it cannot block
			avail := contiguous()
			atEOF := final >= 0 && appRead == final && !reset
			errNow := cancelled || (reset && appRead >= relSize)
			if avail == 0 && !atEOF && !errNow {
				continue
			}
			n := r.Range(1, int(max(avail, 1))+3)
			if tab != nil {
				n = int(tab.steps[i][1])
			}
			buf := make([]byte, n)
			type res struct {
				n   int
				err error
			}
			ch := make(chan res, 1)
			fc.nAddBytesRead, fc.sumRead = 0, 0
			go func() {
				k, err := str.Read(buf)
				ch <- res{k, err}
			}()
			var x res
			select {
			case x = <-ch:
			case <-time.After(2 * time.Second):
				fmt.Fprintf(w, "INFO\trecvglue: Read blocked unexpectedly: %s\n", strings.Join(human, " ; "))
				str.closeForShutdown(fmt.Errorf("watchdog"))
				<-ch
				return // the case is dropped
			}
			cls := int64(0)
			if x.err == io.EOF {
				cls = 1
			} else if _, ok := x.err.(*StreamError); ok {
				cls = 2
			} else if x.err != nil {
				cls = 3
			}
			if fc.sumRead != int64(x.n) {
				fmt.Fprintf(w, "MONFAIL\trecvglue/read-accounting\tRead returned %d bytes but AddBytesRead was called with %d in total\t%s\n", x.n, fc.sumRead, strings.Join(human, " ; "))
			}
			appRead += int64(x.n)
			emit(u.App("ORead", u.Z(int64(x.n)), u.B(fc.nAddBytesRead > 0), u.Z(cls)),
				int64(sender.completedCalls-d0), rgBool(sender.ctrlCalls > c0), 1, fmt.Sprintf("Read(%d)=(%d,cls%d)", n, x.n, cls))
		case c < 16:
			str.CancelRead(5)
			cancelled = true
			emit("OCancel", rgBool(sender.ctrlCalls > c0), int64(sender.completedCalls-d0), 0, "CancelRead()")
		case c < 18: // RESET_STREAM / RESET_STREAM_AT
			f := final
			if f < 0 {
				f = min(hi+int64(r.Range(0, 6)), max(limit, hi))
				if r.Chance(1, 8) {
					f = limit + 1
				}
			} else if r.Chance(1, 10) {
				f = final + 1 // inconsistent final size
			}
			rel := int64(0)
			if resetAt && r.Bool() {
				rel = int64(r.Intn(int(f) + 1))
			}
			err := str.handleResetStreamFrame(&wire.ResetStreamFrame{StreamID: id, ErrorCode: 3, FinalSize: protocol.ByteCount(f), ReliableSize: protocol.ByteCount(rel)}, monotime.Time(now))
			emit(u.App("OReset", u.Z(f), u.Z(rel), u.Z(now)), errCode(err), int64(sender.completedCalls-d0), 0,
				fmt.Sprintf("RESET_STREAM(final=%d,reliable=%d)", f, rel))
			if err != nil {
				dead = true
				break
			}
			if !cancelled {
				if !reset || rel < relSize {
					relSize = rel
				}
				reset = true
			}
			hi = max(hi, f)
			final = f
		default: // getControlFrame (the run loop packs control frames some time after they were queued)
			before, _ := flowcontrol.VerifStreamState(fc.StreamFlowController)
			allowAns = !r.Chance(1, 5)
			srtt := int64(rtt.SmoothedRTT())
			f, ok, more := str.getControlFrame(monotime.Time(now))
			after, _ := flowcontrol.VerifStreamState(fc.StreamFlowController)
			fast := after[flowcontrol.VReceiveWindowSize] != before[flowcontrol.VReceiveWindowSize]
			kind, val := int64(0), int64(0)
			if ok {
				switch fr := f.Frame.(type) {
				case *wire.StopSendingFrame:
					kind = 1
				case *wire.MaxStreamDataFrame:
					kind, val = 2, int64(fr.MaximumStreamData)
					if val <= advMax {
						fmt.Fprintf(w, "MONFAIL\trecvglue/max-stream-data-not-increasing\tMAX_STREAM_DATA(%d) after the limit %d had been advertised\t%s\n", val, advMax, strings.Join(human, " ; "))
					}
					advMax = max(advMax, val)
				}
			}
			emit(u.App("OCtrl", u.Z(now), u.Z(srtt), u.B(fast), u.B(allowAns)), kind, val, rgBool(more), "getControlFrame()")
		}
	}
	st, fin := flowcontrol.VerifStreamState(fc.StreamFlowController)
	cs := flowcontrol.VerifConnState(conn)
	fo := int64(-1)
	if str.finalOffset != protocol.MaxByteCount {
		fo = int64(str.finalOffset)
	}
	flags := []int64{fo, int64(str.readPos), int64(str.reliableSize), rgBool(str.cancelledLocally), rgBool(str.cancelledRemotely),
		rgBool(str.errorRead), rgBool(str.completed), rgBool(str.queuedStopSending), rgBool(str.queuedMaxStreamData), rgBool(fin)}
	nt := 0
	if len(ops) >= 4 {
		nt = 1
	}
	if str.completed {
		dist["completed"]++
	}
	if dead {
		dist["ended-with-error"]++
	}
	for _, o := range ops {
		dist["op:"+strings.Fields(strings.Trim(o, "()"))[0]]++
	}
	fmt.Fprintf(w, "CASE %d %s\n", nt, u.App("RC", u.Z(rw), u.Z(maxrw), u.Z(cw), u.Z(cmax), u.List(ops), u.List(rets),
		u.ZList(st[:]), u.ZList(cs[:]), u.ZList(flags)))
	if caseNo < 2 {
		fmt.Fprintf(w, "SAMPLE\t%s\n", strings.Join(human, " ; "))
	}
}

// VerifRunRecvGlue is the entry point used by the verifdrv unit "recvglue".
func VerifRunRecvGlue(w *bufio.Writer, seed uint64, n int) {
	r := u.NewRng(u.NewRng(seed).U64() ^ 0xC04C04)
	dist := map[string]int{}
	// fixed table cases on every seed: auto-tuning with a configured maximum window below the initial one
	for _, c := range [][2]int64{{524288, 131072}, {1000, 500}, {1000, 499}, {1000, 501}, {1000, 250}, {16, 7}, {1000, 1500}} {
		ini, mx := c[0], c[1]
		part := ini * 6 / 10
		runRecvGlueCase(w, u.NewRng(5), 99, dist, &rgTable{rw: ini, maxrw: mx, cw: 8 * ini, cmax: 16 * ini, steps: [][3]int64{
			{0, 0, part}, {1, part, 0}, {2, 0, 0}, {0, part, ini - part}, {1, ini - part, 0}, {2, 0, 0}, {0, ini, 1},
		}})
	}
	for i := 0; i < n; i++ {
		runRecvGlueCase(w, r.Fork(), i, dist, nil)
	}
	keys := make([]string, 0, len(dist))
	for k := range dist {
		keys = append(keys, k)
	}
	sort.Strings(keys)
	for _, k := range keys {
		fmt.Fprintf(w, "DIST\t%s\t%d\n", k, dist[k])
	}
}
