//go:build verif

package quic

import (
	"context"
	tls "github.com/refraction-networking/utls"
	"net"
	"time"

	"github.com/refraction-networking/uquic/internal/handshake"
	"github.com/refraction-networking/uquic/internal/protocol"
	"github.com/refraction-networking/uquic/internal/utils"
	"github.com/refraction-networking/uquic/internal/wire"
	"github.com/refraction-networking/uquic/qlogwriter"
)

// C14 (tokens): the server-side use of tokens — baseServer.validateToken and the token branch
// of baseServer.handleInitialImpl — driven on a bare baseServer. Add-only.

// VerifC14Consts feeds the constants translator.
func VerifC14Consts() [][2]any {
	return [][2]any{
		// maxRetryTokenAge() expressed in units of HandshakeIdleTimeout
		{"tok_retryAgeFactor", int64((&Config{HandshakeIdleTimeout: time.Second}).maxRetryTokenAge() / time.Second)},
		{"tok_DefaultHandshakeIdleTimeout", int64(protocol.DefaultHandshakeIdleTimeout)},
		{"tok_MinConnectionIDLenInitial", int64(protocol.MinConnectionIDLenInitial)},
	}
}

// VerifValidateToken calls the real validateToken of a server configured with the two lifetimes.
func VerifValidateToken(tok *handshake.Token, addr net.Addr, maxTokenAge, handshakeIdle time.Duration) bool {
	s := &baseServer{maxTokenAge: maxTokenAge, config: &Config{HandshakeIdleTimeout: handshakeIdle}}
	return s.validateToken(tok, addr)
}

// VerifMaxRetryTokenAge is config.maxRetryTokenAge().
func VerifMaxRetryTokenAge(handshakeIdle time.Duration) time.Duration {
	return (&Config{HandshakeIdleTimeout: handshakeIdle}).maxRetryTokenAge()
}

// VerifInitialOutcome: what handleInitialImpl decided for one Initial packet.
type VerifInitialOutcome struct {
	Kind         int // 0 dropped (short DCID, no token), 1 INVALID_TOKEN queue, 2 Retry queue, 3 connection created, 4 other
	AddrVerified bool
	ODCID        []byte
	HasRSCID     bool
	RSCID        []byte
	RTT          int64
}

type verifC14Sentinel struct{}

type verifC14RawConn struct{}

func (verifC14RawConn) ReadPacket() (receivedPacket, error) { return receivedPacket{}, net.ErrClosed }
func (verifC14RawConn) WritePacket([]byte, net.Addr, []byte, uint16, protocol.ECN) (int, error) {
	return 0, nil
}
func (verifC14RawConn) LocalAddr() net.Addr              { return &net.UDPAddr{IP: net.IPv4(127, 0, 0, 1), Port: 443} }
func (verifC14RawConn) SetReadDeadline(time.Time) error  { return nil }
func (verifC14RawConn) Close() error                     { return nil }
func (verifC14RawConn) capabilities() connCapabilities   { return connCapabilities{} }

// VerifHandleInitialToken runs the real handleInitialImpl up to the point where it either
// queues the packet (Retry / INVALID_TOKEN), drops it, or calls newConn; newConn is the
// struct's test hook and here records its arguments and unwinds.
func VerifHandleInitialToken(g *handshake.TokenGenerator, tokenBytes []byte, addr net.Addr, dcid []byte,
	maxTokenAge, handshakeIdle time.Duration, verifySrc int, // -1: no callback, 0: returns false, 1: returns true
) (out VerifInitialOutcome) {
	s := &baseServer{
		tr:                (*packetHandlerMap)(&Transport{}),
		config:            &Config{HandshakeIdleTimeout: handshakeIdle},
		conn:              verifC14RawConn{},
		tokenGenerator:    g,
		maxTokenAge:       maxTokenAge,
		connIDGenerator:   &protocol.DefaultConnectionIDGenerator{ConnLen: 4},
		invalidTokenQueue: make(chan rejectedPacket, 4),
		retryQueue:        make(chan rejectedPacket, 8),
		logger:            utils.DefaultLogger,
	}
	if verifySrc >= 0 {
		s.verifySourceAddress = func(net.Addr) bool { return verifySrc == 1 }
	}
	s.newConn = func(_ context.Context, _ context.CancelCauseFunc, _ sendConn, _ connRunner,
		origDestConnID protocol.ConnectionID, retrySrcConnID *protocol.ConnectionID,
		_ protocol.ConnectionID, _ protocol.ConnectionID, _ protocol.ConnectionID,
		_ ConnectionIDGenerator, _ *statelessResetter, _ *Config, _ *tls.Config, _ *handshake.TokenGenerator,
		clientAddressValidated bool, rtt time.Duration, _ qlogwriter.Trace, _ utils.Logger, _ protocol.Version,
	) *wrappedConn {
		out.Kind = 3
		out.AddrVerified = clientAddressValidated
		out.ODCID = origDestConnID.Bytes()
		if retrySrcConnID != nil {
			out.HasRSCID = true
			out.RSCID = retrySrcConnID.Bytes()
		}
		out.RTT = int64(rtt)
		panic(verifC14Sentinel{})
	}
	hdr := &wire.Header{
		Type:             protocol.PacketTypeInitial,
		Version:          protocol.Version1,
		DestConnectionID: protocol.ParseConnectionID(dcid),
		SrcConnectionID:  protocol.ParseConnectionID([]byte{9, 9, 9, 9}),
		Token:            tokenBytes,
	}
	p := receivedPacket{buffer: getPacketBuffer(), remoteAddr: addr, data: make([]byte, 1200)}
	defer func() {
		if e := recover(); e != nil {
			if _, ok := e.(verifC14Sentinel); !ok {
				panic(e)
			}
		}
	}()
	err := s.handleInitialImpl(p, hdr)
	switch {
	case err != nil:
		out.Kind = 0
	case len(s.invalidTokenQueue) == 1:
		out.Kind = 1
	case len(s.retryQueue) == 1:
		out.Kind = 2
	default:
		out.Kind = 4
	}
	return out
}
