//go:build verif

package quic

// C06 (sendglue): the connection's SEND path in front of the sent packet handler. A real Conn (constructed like
// the streamsglue unit does, never run) keeps its real packer, framer, crypto streams, retransmission queue and
// streams; only three things are replaced: the packer's sealing manager (null sealers, switchable per level), the
// send queue (records the datagrams) and the sentPacketHandler field, which becomes a forwarding decorator
// (ackhandler.VerifSentPHDeco) that records every call the connection makes and every OnAcked/OnLost the real
// frame handlers receive. Traffic is produced by the real call sites: triggerSending -> sendPackets /
// sendProbePacket -> packer -> sendPackedCoalescedPacket / registerPackedShortHeaderPacket -> SentPacket;
// handleAckFrame -> ReceivedAck; dropEncryptionLevel -> DropPackets. Add-only.

import (
	"fmt"
	"net"

	"github.com/refraction-networking/uquic/internal/ackhandler"
	"github.com/refraction-networking/uquic/internal/handshake"
	"github.com/refraction-networking/uquic/internal/monotime"
	"github.com/refraction-networking/uquic/internal/protocol"
	"github.com/refraction-networking/uquic/internal/wire"
)

type verifSendGlueSealer struct{}

func (verifSendGlueSealer) Seal(dst, src []byte, _ protocol.PacketNumber, _ []byte) []byte {
	return append(append(dst, src...), make([]byte, 16)...)
}
func (verifSendGlueSealer) EncryptHeader([]byte, *byte, []byte) {}
func (verifSendGlueSealer) Overhead() int                       { return 16 }
func (verifSendGlueSealer) KeyPhase() protocol.KeyPhaseBit      { return protocol.KeyPhaseZero }

// verifSendGlueKeys: which keys "exist" at the moment.
type verifSendGlueKeys struct{ initial, handshake, zeroRTT, oneRTT bool }

func (k *verifSendGlueKeys) GetInitialSealer() (handshake.LongHeaderSealer, error) {
	if !k.initial {
		return nil, handshake.ErrKeysDropped
	}
	return verifSendGlueSealer{}, nil
}
func (k *verifSendGlueKeys) GetHandshakeSealer() (handshake.LongHeaderSealer, error) {
	if !k.handshake {
		return nil, handshake.ErrKeysNotYetAvailable
	}
	return verifSendGlueSealer{}, nil
}
func (k *verifSendGlueKeys) Get0RTTSealer() (handshake.LongHeaderSealer, error) {
	if !k.zeroRTT {
		return nil, handshake.ErrKeysNotYetAvailable
	}
	return verifSendGlueSealer{}, nil
}
func (k *verifSendGlueKeys) Get1RTTSealer() (handshake.ShortHeaderSealer, error) {
	if !k.oneRTT {
		return nil, handshake.ErrKeysNotYetAvailable
	}
	return verifSendGlueSealer{}, nil
}

type verifSendGlueSender struct{ lens []int }

func (s *verifSendGlueSender) Send(p *packetBuffer, _ uint16, _ protocol.ECN) {
	s.lens = append(s.lens, len(p.Data))
	p.Release()
}
func (s *verifSendGlueSender) SendProbe(p *packetBuffer, _ net.Addr) {
	s.lens = append(s.lens, len(p.Data))
	p.Release()
}
func (s *verifSendGlueSender) Run() error                 { return nil }
func (s *verifSendGlueSender) WouldBlock() bool           { return false }
func (s *verifSendGlueSender) Available() <-chan struct{} { return nil }
func (s *verifSendGlueSender) Close()                     {}

// VerifSendGlueConn is the constructed connection with the instrumented send path.
type VerifSendGlueConn struct {
	sg     *VerifSGConn
	Deco   *ackhandler.VerifSentPHDeco
	keys   *verifSendGlueKeys
	sender *verifSendGlueSender
	stream *Stream
}

func NewVerifSendGlueConn(client, tracer bool) (v *VerifSendGlueConn, err error) {
	defer func() {
		if r := recover(); r != nil {
			err = fmt.Errorf("panic: %v", r)
		}
	}()
	sg, err := NewVerifSGConn(client, tracer, 100, 100)
	if err != nil {
		return nil, err
	}
	c := sg.c
	c.handshakeComplete = false
	c.initialStream.DisableScrambling() // the ClientHello scrambler is C09's subject; here the crypto data is opaque
	deco := ackhandler.NewVerifSentPHDeco(c.sentPacketHandler)
	if deco == nil {
		return nil, fmt.Errorf("unexpected sent packet handler type %T", c.sentPacketHandler)
	}
	pp, ok := c.packer.(*packetPacker)
	if !ok {
		return nil, fmt.Errorf("unexpected packer type %T", c.packer)
	}
	keys := &verifSendGlueKeys{initial: true}
	pp.cryptoSetup = keys
	pp.pnManager = deco
	c.sentPacketHandler = deco
	snd := &verifSendGlueSender{}
	c.sendQueue = snd
	// the peer allows us to open streams and to send data
	c.streamsMap.HandleMaxStreamsFrame(&wire.MaxStreamsFrame{Type: protocol.StreamTypeBidi, MaxStreamNum: 10})
	c.connFlowController.UpdateSendWindow(1 << 20)
	return &VerifSendGlueConn{sg: sg, Deco: deco, keys: keys, sender: snd}, nil
}

// SetKeys declares which sealers exist.
func (v *VerifSendGlueConn) SetKeys(initial, hs, zeroRTT, oneRTT bool) {
	v.keys.initial, v.keys.handshake, v.keys.zeroRTT, v.keys.oneRTT = initial, hs, zeroRTT, oneRTT
}

// SetKeysAdd makes the keys of one more level available (2 Handshake, 3 0-RTT, 4 1-RTT).
func (v *VerifSendGlueConn) SetKeysAdd(level int) {
	switch level {
	case 2:
		v.keys.handshake = true
	case 3:
		v.keys.zeroRTT = true
	case 4:
		v.keys.oneRTT = true
	}
}

// SetKeysDropped: the connection discarded that level (1 Initial, 2 Handshake, 3 0-RTT).
func (v *VerifSendGlueConn) SetKeysDropped(level int) {
	switch level {
	case 1:
		v.keys.initial = false
	case 2:
		v.keys.handshake = false
	case 3:
		v.keys.zeroRTT = false
		v.stream = nil // streams opened for 0-RTT are reset by ResetFor0RTT; the application opens new ones
	}
}

// KeysAvailable: the sealer of that level exists right now (1 Initial, 2 Handshake, 3 0-RTT, 4 1-RTT).
func (v *VerifSendGlueConn) KeysAvailable(level int) bool {
	switch level {
	case 1:
		return v.keys.initial
	case 2:
		return v.keys.handshake
	case 3:
		return v.keys.zeroRTT
	case 4:
		return v.keys.oneRTT
	}
	return false
}

// WriteCrypto hands n bytes of handshake data to the Initial (level 1) or Handshake (level 2) crypto stream.
func (v *VerifSendGlueConn) WriteCrypto(level int, n int) error {
	data := make([]byte, n)
	var err error
	if level == 1 {
		_, err = v.sg.c.initialStream.Write(data)
	} else {
		_, err = v.sg.c.handshakeStream.Write(data)
	}
	return err
}

// QueueControl queues a control frame: 0 MAX_DATA, 1 PING, 2 MAX_STREAM_DATA-like (MAX_STREAMS).
func (v *VerifSendGlueConn) QueueControl(kind int) {
	switch kind {
	case 0:
		v.sg.c.framer.QueueControlFrame(&wire.MaxDataFrame{MaximumData: 1 << 22})
	case 1:
		v.sg.c.framer.QueueControlFrame(&wire.PingFrame{})
	default:
		v.sg.c.framer.QueueControlFrame(&wire.MaxStreamsFrame{Type: protocol.StreamTypeUni, MaxStreamNum: 50})
	}
}

// WriteStream writes n (small) bytes on a locally opened bidirectional stream (opened on first use).
func (v *VerifSendGlueConn) WriteStream(n int) (err error) {
	defer func() {
		if r := recover(); r != nil {
			err = fmt.Errorf("panic: %v", r)
		}
	}()
	if v.stream == nil {
		s, err := v.sg.c.streamsMap.OpenStream()
		if err != nil {
			return err
		}
		v.stream = s
	}
	_, err = v.stream.Write(make([]byte, n))
	return err
}

// Trigger runs the connection's send loop entry once (as the run loop does when sending is scheduled).
func (v *VerifSendGlueConn) Trigger(now int64) (datagrams []int, err error) {
	defer func() {
		if r := recover(); r != nil {
			err = fmt.Errorf("panic: %v", r)
		}
	}()
	v.sender.lens = nil
	err = v.sg.c.triggerSending(monotime.Time(now))
	return v.sender.lens, err
}

// Timeout: the loss detection timer fired (the run loop calls OnLossDetectionTimeout, then sends).
func (v *VerifSendGlueConn) Timeout(now int64) error {
	return v.sg.c.sentPacketHandler.OnLossDetectionTimeout(monotime.Time(now))
}

// Ack lets the connection handle an ACK frame received at the given level.
func (v *VerifSendGlueConn) Ack(level int, now int64, ranges [][2]int64) (err error) {
	defer func() {
		if r := recover(); r != nil {
			err = fmt.Errorf("panic: %v", r)
		}
	}()
	ack := &wire.AckFrame{}
	for _, r := range ranges {
		ack.AckRanges = append(ack.AckRanges, wire.AckRange{Smallest: protocol.PacketNumber(r[0]), Largest: protocol.PacketNumber(r[1])})
	}
	v.sg.c.lastPacketReceivedTime = monotime.Time(now)
	return v.sg.c.handleAckFrame(ack, protocol.EncryptionLevel(level), monotime.Time(now))
}

// Drop: the keys of that level are discarded (Initial / Handshake) or 0-RTT was rejected.
func (v *VerifSendGlueConn) Drop(level int, now int64) (err error) {
	defer func() {
		if r := recover(); r != nil {
			err = fmt.Errorf("panic: %v", r)
		}
	}()
	return v.sg.c.dropEncryptionLevel(protocol.EncryptionLevel(level), monotime.Time(now))
}

// AfterRejection does what handleTransportParameters does after a 0-RTT rejection: the fresh streams maps come
// into use, with the limits of the new transport parameters.
func (v *VerifSendGlueConn) AfterRejection() {
	c := v.sg.c
	c.streamsMap.UseResetMaps()
	c.streamsMap.HandleMaxStreamsFrame(&wire.MaxStreamsFrame{Type: protocol.StreamTypeBidi, MaxStreamNum: 10})
	c.connFlowController.UpdateSendWindow(1 << 20)
}

// Confirm marks the handshake complete and confirmed (what handleHandshakeComplete / HANDSHAKE_DONE do to the flags).
func (v *VerifSendGlueConn) Confirm() {
	v.sg.c.handshakeComplete = true
	v.sg.c.handshakeConfirmed = true
}

// Retrans returns the number of frames waiting in the retransmission queue: (initial crypto+other, handshake, appData); -1 = dropped.
func (v *VerifSendGlueConn) Retrans() [3]int {
	q := v.sg.c.retransmissionQueue
	n := func(f *framesToRetransmit) int {
		if f == nil {
			return -1
		}
		return len(f.crypto) + len(f.other)
	}
	return [3]int{n(q.initial), n(q.handshake), n(&q.appData)}
}

func (v *VerifSendGlueConn) Shutdown() { v.sg.Shutdown() }
