//go:build verif

package quic

// C12 (advenf): a client connection constructed exactly the way (U)Transport.dial does
// (validateConfig, populateConfig, QUICSpec.UpdateConfig, new(U)ClientConnection) but never
// run, so that the limits it ENFORCES can be read and driven single-threadedly, and the
// limits it ADVERTISES can be taken from the ClientHello its own crypto setup emits.
// Add-only: calls unexported constructors, reads unexported fields.

import (
	"context"
	"errors"
	"fmt"
	"net"
	"sync"
	"time"

	"github.com/refraction-networking/uquic/internal/flowcontrol"
	"github.com/refraction-networking/uquic/internal/handshake"
	"github.com/refraction-networking/uquic/internal/monotime"
	"github.com/refraction-networking/uquic/internal/protocol"
	"github.com/refraction-networking/uquic/internal/qerr"
	"github.com/refraction-networking/uquic/internal/utils"
	"github.com/refraction-networking/uquic/internal/wire"
	"github.com/refraction-networking/uquic/qlogwriter"
	tls "github.com/refraction-networking/utls"
)

type verifAdvEnfSendConn struct {
	local, remote net.Addr
	mu            sync.Mutex
	sent          int
}

func (c *verifAdvEnfSendConn) Write(b []byte, _ uint16, _ protocol.ECN) error {
	c.mu.Lock()
	c.sent++
	c.mu.Unlock()
	return nil
}
func (c *verifAdvEnfSendConn) WriteTo([]byte, net.Addr) error        { return nil }
func (c *verifAdvEnfSendConn) Close() error                          { return nil }
func (c *verifAdvEnfSendConn) LocalAddr() net.Addr                   { return c.local }
func (c *verifAdvEnfSendConn) RemoteAddr() net.Addr                  { return c.remote }
func (c *verifAdvEnfSendConn) ChangeRemoteAddr(net.Addr, packetInfo) {}
func (c *verifAdvEnfSendConn) capabilities() connCapabilities        { return connCapabilities{} }

type verifAdvEnfRunner struct{}

func (verifAdvEnfRunner) Add(protocol.ConnectionID, packetHandler) bool                    { return true }
func (verifAdvEnfRunner) Remove(protocol.ConnectionID)                                     {}
func (verifAdvEnfRunner) ReplaceWithClosed([]protocol.ConnectionID, []byte, time.Duration) {}
func (verifAdvEnfRunner) AddResetToken(protocol.StatelessResetToken, packetHandler)        {}
func (verifAdvEnfRunner) RemoveResetToken(protocol.StatelessResetToken)                    {}

// VerifAdvEnfConn wraps the constructed (not running) client connection.
type VerifAdvEnfConn struct {
	C          *Conn
	Conf       *Config // the populated Config the connection was built with
	SrcConnID  []byte
	DestConnID []byte
	spec       *QUICSpec
	local      *Stream
	rd         map[int64]interface{ Read([]byte) (int, error) }
}

// VerifAdvEnfBuild mirrors UTransport.dial/doDial up to and including the constructor call.
// spec == nil takes the plain path (newClientConnection), as UTransport does.
func VerifAdvEnfBuild(spec *QUICSpec, conf *Config, tlsConf *tls.Config) (vc *VerifAdvEnfConn, err error) {
	defer func() {
		if r := recover(); r != nil {
			err = fmt.Errorf("panic: %v", r)
		}
	}()
	var gen ConnectionIDGenerator = &protocol.DefaultConnectionIDGenerator{ConnLen: protocol.DefaultConnectionIDLength}
	if spec != nil {
		if spec.InitialPacketSpec.SrcConnIDLength != 0 {
			gen = &protocol.DefaultConnectionIDGenerator{ConnLen: spec.InitialPacketSpec.SrcConnIDLength}
		} else {
			gen = &protocol.ExpEmptyConnectionIDGenerator{}
		}
	}
	if err := validateConfig(conf); err != nil {
		return nil, err
	}
	conf = populateConfig(conf)
	var initialPN protocol.PacketNumber
	if spec != nil {
		spec.UpdateConfig(conf)
		initialPN = spec.InitialPacketSpec.initialPN()
	}
	srcConnID, err := gen.GenerateConnectionID()
	if err != nil {
		return nil, err
	}
	var destConnID protocol.ConnectionID
	if spec != nil && spec.InitialPacketSpec.DestConnIDLength > 0 {
		destConnID, err = generateConnectionIDForInitialWithLength(spec.InitialPacketSpec.DestConnIDLength)
	} else {
		destConnID, err = generateConnectionIDForInitial()
	}
	if err != nil {
		return nil, err
	}
	sc := &verifAdvEnfSendConn{
		local:  &net.UDPAddr{IP: net.IPv4(1, 0, 0, 1), Port: 9001},
		remote: &net.UDPAddr{IP: net.IPv4(1, 0, 0, 2), Port: 9002},
	}
	tlsConf = tlsConf.Clone()
	logger := utils.DefaultLogger.WithPrefix("client")
	var wc *wrappedConn
	if spec == nil {
		wc = newClientConnection(context.Background(), sc, verifAdvEnfRunner{}, destConnID, srcConnID, gen,
			newStatelessResetter(nil), conf, tlsConf, initialPN, false, false, nil, logger, conf.Versions[0])
	} else {
		wc = newUClientConnection(context.Background(), sc, verifAdvEnfRunner{}, destConnID, srcConnID, gen,
			newStatelessResetter(nil), conf, tlsConf, initialPN, false, false, nil, logger, conf.Versions[0], spec)
	}
	return &VerifAdvEnfConn{C: wc.Conn, Conf: conf, SrcConnID: srcConnID.Bytes(), DestConnID: destConnID.Bytes(), spec: spec}, nil
}

// VerifAdvEnfPopulated returns the fields of populateConfig(validateConfig(conf)) the C12
// model depends on.
type VerifAdvEnfCfg struct {
	InitialStreamReceiveWindow, MaxStreamReceiveWindow         uint64
	InitialConnectionReceiveWindow, MaxConnectionReceiveWindow uint64
	MaxIncomingStreams, MaxIncomingUniStreams                  int64
	EnableDatagrams                                            bool
	MaxIdleTimeout                                             int64 // ns
}

func VerifAdvEnfCfgOf(c *Config) VerifAdvEnfCfg {
	return VerifAdvEnfCfg{c.InitialStreamReceiveWindow, c.MaxStreamReceiveWindow, c.InitialConnectionReceiveWindow,
		c.MaxConnectionReceiveWindow, c.MaxIncomingStreams, c.MaxIncomingUniStreams, c.EnableDatagrams, int64(c.MaxIdleTimeout)}
}

func VerifAdvEnfPopulate(conf *Config) (VerifAdvEnfCfg, error) {
	var cp *Config
	if conf != nil {
		cp = conf.Clone()
	}
	if err := validateConfig(cp); err != nil {
		return VerifAdvEnfCfg{}, err
	}
	return VerifAdvEnfCfgOf(populateConfig(cp)), nil
}

// VerifAdvEnfConsts: constants of the enforcement sites.
func VerifAdvEnfConsts() [][2]any {
	return [][2]any{
		{"protoMaxActiveConnectionIDs", int64(protocol.MaxActiveConnectionIDs)},
		{"protoMaxIssuedConnectionIDs", int64(protocol.MaxIssuedConnectionIDs)},
		{"protoDefaultActiveConnectionIDLimit", int64(protocol.DefaultActiveConnectionIDLimit)},
		{"protoDefaultInitialMaxStreamData", int64(protocol.DefaultInitialMaxStreamData)},
		{"protoDefaultInitialMaxData", int64(protocol.DefaultInitialMaxData)},
		{"protoDefaultMaxReceiveStreamFlowControlWindow", int64(protocol.DefaultMaxReceiveStreamFlowControlWindow)},
		{"protoDefaultMaxReceiveConnectionFlowControlWindow", int64(protocol.DefaultMaxReceiveConnectionFlowControlWindow)},
		{"protoDefaultMaxIncomingStreams", int64(protocol.DefaultMaxIncomingStreams)},
		{"protoDefaultMaxIncomingUniStreams", int64(protocol.DefaultMaxIncomingUniStreams)},
		{"protoDefaultIdleTimeoutNs", int64(protocol.DefaultIdleTimeout)},
		{"protoMaxPacketBufferSize", int64(protocol.MaxPacketBufferSize)},
		{"protoDefaultAckDelayExponent", int64(protocol.DefaultAckDelayExponent)},
		{"protoDefaultMaxAckDelayMs", int64(protocol.DefaultMaxAckDelay / time.Millisecond)},
	}
}

// Enforced limits as the connection holds them.
type VerifAdvEnfEnforced struct {
	ConnWindow, ConnWindowSize, ConnMaxWindow int64
	// index 0: client-initiated bidi (id 0), 1: server-initiated bidi (id 1), 2: server-initiated uni (id 3)
	StreamWindow, StreamMaxWindow [3]int64
	MaxInBidi, MaxInUni           uint64 // streamsMap fields
	MaxStreamNumBidi              int64  // incoming maps: highest stream number the peer may open
	MaxStreamNumUni               int64
	Datagrams                     bool
	CIDQueueCap                   int
	IdleTimeout                   int64 // ns; meaningful after ApplyPeer
}

// VerifAdvEnfReadEnforced reads the limits from any client Conn (constructed or dialled).
// needs c.peerParams != nil for the stream windows (newFlowController reads it).
func VerifAdvEnfReadEnforced(c *Conn) (e VerifAdvEnfEnforced) {
	rw, sz, mx, _ := flowcontrol.VerifAdvEnfWindows(c.connFlowController)
	e.ConnWindow, e.ConnWindowSize, e.ConnMaxWindow = int64(rw), int64(sz), int64(mx)
	if c.peerParams != nil {
		for i, id := range []protocol.StreamID{0, 1, 3} {
			fc := c.newFlowController(id)
			rw, _, mx, _ := flowcontrol.VerifAdvEnfWindows(fc)
			e.StreamWindow[i], e.StreamMaxWindow[i] = int64(rw), int64(mx)
		}
	}
	m := c.streamsMap
	e.MaxInBidi, e.MaxInUni = m.maxIncomingBidiStreams, m.maxIncomingUniStreams
	m.incomingBidiStreams.mutex.RLock()
	e.MaxStreamNumBidi = int64(m.incomingBidiStreams.maxStream.StreamNum())
	if m.incomingBidiStreams.maxStream == protocol.InvalidStreamID {
		e.MaxStreamNumBidi = 0
	}
	m.incomingBidiStreams.mutex.RUnlock()
	m.incomingUniStreams.mutex.RLock()
	e.MaxStreamNumUni = int64(m.incomingUniStreams.maxStream.StreamNum())
	if m.incomingUniStreams.maxStream == protocol.InvalidStreamID {
		e.MaxStreamNumUni = 0
	}
	m.incomingUniStreams.mutex.RUnlock()
	e.Datagrams = wire.VerifAdvEnfSupportsDatagrams(&c.frameParser)
	e.CIDQueueCap = cap(c.connIDManager.queue)
	e.IdleTimeout = int64(c.idleTimeout)
	return e
}

func (v *VerifAdvEnfConn) Spec() *QUICSpec { return v.spec }

func (v *VerifAdvEnfConn) Enforced() VerifAdvEnfEnforced { return VerifAdvEnfReadEnforced(v.C) }

// VerifAdvEnfPeer: the peer's (server's) transport parameters as far as they matter here.
type VerifAdvEnfPeer struct {
	MaxIdleTimeout                                                           time.Duration
	InitialMaxData, StreamDataBidiLocal, StreamDataBidiRemote, StreamDataUni uint64
	MaxBidiStreams, MaxUniStreams                                            uint64
	ActiveConnectionIDLimit                                                  uint64
	MaxDatagramFrameSize                                                     int64
}

// ApplyPeer does what the run loop does when the handshake completes: stores the peer's
// parameters and calls applyTransportParameters.
func (v *VerifAdvEnfConn) ApplyPeer(p VerifAdvEnfPeer) {
	v.C.peerParams = &wire.TransportParameters{
		MaxIdleTimeout:                 p.MaxIdleTimeout,
		InitialMaxData:                 protocol.ByteCount(p.InitialMaxData),
		InitialMaxStreamDataBidiLocal:  protocol.ByteCount(p.StreamDataBidiLocal),
		InitialMaxStreamDataBidiRemote: protocol.ByteCount(p.StreamDataBidiRemote),
		InitialMaxStreamDataUni:        protocol.ByteCount(p.StreamDataUni),
		MaxBidiStreamNum:               protocol.StreamNum(p.MaxBidiStreams),
		MaxUniStreamNum:                protocol.StreamNum(p.MaxUniStreams),
		ActiveConnectionIDLimit:        p.ActiveConnectionIDLimit,
		MaxDatagramFrameSize:           protocol.ByteCount(p.MaxDatagramFrameSize),
		MaxAckDelay:                    protocol.DefaultMaxAckDelay,
		AckDelayExponent:               protocol.DefaultAckDelayExponent,
		MaxUDPPayloadSize:              protocol.MaxByteCount,
	}
	v.C.applyTransportParameters()
}

// Frames feeds a 1-RTT packet payload to the connection's frame handling, exactly as
// handleUnpackedShortHeaderPacket does, and classifies the result:
// 0 = no error, n > 0 = transport error code n, -1 = some other error.
func (v *VerifAdvEnfConn) Frames(payload []byte) (code int64, msg string) {
	defer func() {
		if r := recover(); r != nil {
			code, msg = -2, fmt.Sprintf("panic: %v", r)
		}
	}()
	_, _, _, err := v.C.handleFrames(payload, v.C.connIDManager.Get(), protocol.Encryption1RTT, nil, monotime.Now())
	return VerifAdvEnfClassify(err)
}

func VerifAdvEnfClassify(err error) (int64, string) {
	if err == nil {
		return 0, ""
	}
	var te *qerr.TransportError
	if errors.As(err, &te) {
		return int64(te.ErrorCode), te.Error()
	}
	return -1, err.Error()
}

// ClientHello starts the connection's crypto setup and returns the CRYPTO data it wants
// to send at the Initial level (the ClientHello handshake message).
func (v *VerifAdvEnfConn) ClientHello() (ch []byte, err error) {
	defer func() {
		if r := recover(); r != nil {
			err = fmt.Errorf("panic: %v", r)
		}
	}()
	if err := v.C.cryptoStreamHandler.StartHandshake(v.C.ctx); err != nil {
		return nil, err
	}
	for {
		ev := v.C.cryptoStreamHandler.NextEvent()
		if ev.Kind == handshake.EventNoEvent {
			break
		}
		if ev.Kind == handshake.EventWriteInitialData {
			ch = append(ch, ev.Data...)
		}
	}
	return ch, nil
}

func (v *VerifAdvEnfConn) Close() {
	defer func() { recover() }()
	v.C.cryptoStreamHandler.Close()
}

// The connection's own record of its parameters.
type VerifAdvEnfRecord struct {
	InitialMaxData, StreamDataBidiLocal, StreamDataBidiRemote, StreamDataUni int64
	MaxBidiStreams, MaxUniStreams                                            int64
	ActiveConnectionIDLimit                                                  uint64
	MaxDatagramFrameSize                                                     int64
	MaxIdleTimeout                                                           int64 // ns
	MaxUDPPayloadSize                                                        int64
	AckDelayExponent                                                         int64
	MaxAckDelay                                                              int64 // ns
	DisableActiveMigration                                                   bool
	InitialSourceConnectionID                                                []byte
	ClientOverride                                                           []byte // nil on the plain path
	HasOverride                                                              bool
}

func VerifAdvEnfReadRecord(c *Conn) (r VerifAdvEnfRecord, ok bool) {
	p := handshake.VerifAdvEnfOurParams(c.cryptoStreamHandler)
	if p == nil {
		return r, false
	}
	return VerifAdvEnfRecord{
		int64(p.InitialMaxData), int64(p.InitialMaxStreamDataBidiLocal), int64(p.InitialMaxStreamDataBidiRemote), int64(p.InitialMaxStreamDataUni),
		int64(p.MaxBidiStreamNum), int64(p.MaxUniStreamNum), p.ActiveConnectionIDLimit, int64(p.MaxDatagramFrameSize), int64(p.MaxIdleTimeout),
		int64(p.MaxUDPPayloadSize), int64(p.AckDelayExponent), int64(p.MaxAckDelay), p.DisableActiveMigration,
		p.InitialSourceConnectionID.Bytes(), append([]byte(nil), p.ClientOverride...), p.ClientOverride != nil,
	}, true
}

func (v *VerifAdvEnfConn) Record() (VerifAdvEnfRecord, bool) { return VerifAdvEnfReadRecord(v.C) }

// VerifAdvEnfPeerParams: what a connection (e.g. the in-tree server's) parsed from its peer's
// transport parameters; ok=false before they were received.
func VerifAdvEnfPeerParams(c *Conn) (r VerifAdvEnfRecord, ok bool) {
	p := c.peerParams
	if p == nil {
		return r, false
	}
	return VerifAdvEnfRecord{
		int64(p.InitialMaxData), int64(p.InitialMaxStreamDataBidiLocal), int64(p.InitialMaxStreamDataBidiRemote), int64(p.InitialMaxStreamDataUni),
		int64(p.MaxBidiStreamNum), int64(p.MaxUniStreamNum), p.ActiveConnectionIDLimit, int64(p.MaxDatagramFrameSize), int64(p.MaxIdleTimeout),
		int64(p.MaxUDPPayloadSize), int64(p.AckDelayExponent), int64(p.MaxAckDelay), p.DisableActiveMigration,
		p.InitialSourceConnectionID.Bytes(), nil, false,
	}, true
}

// SpecParams lists the (id, value) pairs of the spec's QUICTransportParametersExtension as
// they stand now (after construction: suppressed, shuffled, source connection ID filled in).
func VerifAdvEnfSpecParams(spec *QUICSpec) (ids []uint64, vals [][]byte, ok bool) {
	if spec == nil || spec.ClientHelloSpec == nil {
		return nil, nil, false
	}
	for _, ext := range spec.ClientHelloSpec.Extensions {
		if q, is := ext.(*tls.QUICTransportParametersExtension); is {
			for _, tp := range q.TransportParameters {
				ids = append(ids, tp.ID())
				vals = append(vals, append([]byte(nil), tp.Value()...))
			}
			return ids, vals, true
		}
	}
	return nil, nil, false
}

// VerifAdvEnfCapture wraps the package's connection constructors so that every client
// connection a Transport creates from now on is reported to f (used by the simulated
// dials: the enforced limits of the very connection that went on the wire).
// It returns a function restoring the previous constructors.
func VerifAdvEnfCapture(f func(*Conn)) (restore func()) {
	oldU, oldP := newUClientConnection, newClientConnection
	newUClientConnection = func(ctx context.Context, conn sendConn, runner connRunner, destConnID, srcConnID protocol.ConnectionID,
		g ConnectionIDGenerator, sr *statelessResetter, conf *Config, tlsConf *tls.Config, ipn protocol.PacketNumber,
		e0 bool, hnv bool, qt qlogwriter.Trace, logger utils.Logger, v protocol.Version, uSpec *QUICSpec) *wrappedConn {
		wc := oldU(ctx, conn, runner, destConnID, srcConnID, g, sr, conf, tlsConf, ipn, e0, hnv, qt, logger, v, uSpec)
		f(wc.Conn)
		return wc
	}
	newClientConnection = func(ctx context.Context, conn sendConn, runner connRunner, destConnID, srcConnID protocol.ConnectionID,
		g ConnectionIDGenerator, sr *statelessResetter, conf *Config, tlsConf *tls.Config, ipn protocol.PacketNumber,
		e0 bool, hnv bool, qt qlogwriter.Trace, logger utils.Logger, v protocol.Version) *wrappedConn {
		wc := oldP(ctx, conn, runner, destConnID, srcConnID, g, sr, conf, tlsConf, ipn, e0, hnv, qt, logger, v)
		f(wc.Conn)
		return wc
	}
	return func() { newUClientConnection, newClientConnection = oldU, oldP }
}

// CIDState: the sequence number of the connection ID in use and the number of queued ones.
func VerifAdvEnfCIDState(c *Conn) (active uint64, queued int) {
	return c.connIDManager.activeSequenceNumber, len(c.connIDManager.queue)
}

func (v *VerifAdvEnfConn) CIDState() (uint64, int) { return VerifAdvEnfCIDState(v.C) }

// ClientRotate makes the (not running) client do what it does right after the handshake:
// switch to the next connection ID and retire the first one (connIDManager.Get after
// SetHandshakeComplete). It reports whether a switch happened; nothing is changed otherwise.
func (v *VerifAdvEnfConn) ClientRotate() bool {
	m := v.C.connIDManager
	if m.activeSequenceNumber != 0 || len(m.queue) == 0 {
		return false
	}
	m.SetHandshakeComplete()
	m.Get()
	return m.activeSequenceNumber != 0
}

// VerifAdvEnfServerIssue makes a (server) connection issue n more connection IDs through its
// own connIDGenerator (so they are routed), with the given Retire Prior To in the
// NEW_CONNECTION_ID frames, and swallow the next dropNext NEW_CONNECTION_ID frames the
// generator wants to send afterwards (the replacements it issues when the client retires:
// a peer that has just added an ID on top must not replace the retired one as well).
// Call only while the connection's goroutines are idle (synctest.Wait).
func VerifAdvEnfServerIssue(c *Conn, n int, retirePriorTo uint64, dropNext int) error {
	g := c.connIDGenerator
	orig := c.queueControlFrame
	g.queueControlFrame = func(f wire.Frame) {
		if nf, ok := f.(*wire.NewConnectionIDFrame); ok {
			nf.RetirePriorTo = retirePriorTo
		}
		orig(f)
	}
	for i := 0; i < n; i++ {
		if err := g.issueNewConnID(); err != nil {
			g.queueControlFrame = orig
			return err
		}
	}
	drop := dropNext
	g.queueControlFrame = func(f wire.Frame) {
		if _, ok := f.(*wire.NewConnectionIDFrame); ok && drop > 0 {
			drop--
			return
		}
		orig(f)
	}
	c.scheduleSending()
	return nil
}

// ---- round 3: the client's own events (window updates after reads, MAX_STREAMS after a
// stream is done, RETIRE_CONNECTION_ID, the idle deadline) on the constructed connection ----

// Flush collects the control frames the connection would put into its next packets: it does
// what sendPackets does before packing (connection-level GetWindowUpdate -> MAX_DATA) and then
// drains the framer (MAX_STREAM_DATA from the streams' control frame getters, queued
// MAX_STREAMS, RETIRE_CONNECTION_ID, ...).
func (v *VerifAdvEnfConn) Flush() (out []wire.Frame) {
	c := v.C
	now := monotime.Now()
	if offset := c.connFlowController.GetWindowUpdate(now); offset > 0 {
		c.framer.QueueControlFrame(&wire.MaxDataFrame{MaximumData: offset})
	}
	for i := 0; i < 200; i++ {
		fs, _, _ := c.framer.Append(nil, nil, 1200, now, c.version)
		if len(fs) == 0 {
			break
		}
		for _, f := range fs {
			out = append(out, f.Frame)
		}
	}
	return out
}

// ReadStream reads exactly n bytes (which must have arrived contiguously) from stream id as the
// application would: id 0 is the stream the client opened, 1 and 3 are accepted from the peer.
func (v *VerifAdvEnfConn) ReadStream(id int64, n int) (got int, err error) {
	defer func() {
		if r := recover(); r != nil {
			err = fmt.Errorf("panic: %v", r)
		}
	}()
	if v.rd == nil {
		v.rd = map[int64]interface{ Read([]byte) (int, error) }{}
	}
	r, ok := v.rd[id]
	if !ok {
		ctx, cancel := context.WithTimeout(context.Background(), time.Millisecond)
		defer cancel()
		switch id {
		case 0:
			if v.local == nil {
				return 0, errors.New("stream 0 not opened")
			}
			r = v.local
		case 1:
			s, err := v.C.AcceptStream(ctx)
			if err != nil {
				return 0, err
			}
			r = s
		default:
			for {
				s, err := v.C.AcceptUniStream(ctx)
				if err != nil {
					return 0, err
				}
				v.rd[int64(s.StreamID())] = s
				if int64(s.StreamID()) == id {
					r = s
					break
				}
			}
		}
		v.rd[id] = r
	}
	buf := make([]byte, n)
	for got < n {
		m, err := r.Read(buf[got:])
		got += m
		if err != nil {
			return got, err
		}
	}
	return got, nil
}

// OpenLocal opens the client-initiated bidirectional stream 0 (once).
func (v *VerifAdvEnfConn) OpenLocal() error {
	if v.local != nil {
		return nil
	}
	s, err := v.C.OpenStream()
	if err != nil {
		return err
	}
	v.local = s
	return nil
}

// EnforcedNow: the limit the connection enforces right now for a counter of the C12 game:
// 0 connection bytes, 1..3 bytes on stream 0/1/3 (-1 if the stream does not exist), 4/5 highest
// bidi/uni stream number the peer may open, 6 connection IDs stored (in use + queued).
func (v *VerifAdvEnfConn) EnforcedNow(k int) int64 {
	c := v.C
	switch k {
	case 0:
		rw, _, _, _ := flowcontrol.VerifAdvEnfWindows(c.connFlowController)
		return int64(rw)
	case 1, 2, 3:
		// only to be asked for a stream that exists (the lookup would open an incoming one)
		id := []protocol.StreamID{0, 1, 3}[k-1]
		rs, err := c.streamsMap.getReceiveStream(id)
		if err != nil || rs == nil {
			return -1
		}
		g, ok := rs.(interface {
			verifAdvEnfFC() flowcontrol.StreamFlowController
		})
		if !ok {
			return -1
		}
		fc := g.verifAdvEnfFC()
		rw, _, _, ok := flowcontrol.VerifAdvEnfWindows(fc)
		if !ok {
			return -1
		}
		return int64(rw)
	case 4:
		return v.Enforced().MaxStreamNumBidi
	case 5:
		return v.Enforced().MaxStreamNumUni
	}
	_, q := v.CIDState()
	return int64(1 + q)
}

func (s *ReceiveStream) verifAdvEnfFC() flowcontrol.StreamFlowController { return s.flowController }
func (s *Stream) verifAdvEnfFC() flowcontrol.StreamFlowController        { return s.receiveStr.flowController }

// IdleDeadline: with the handshake complete, how long after the last activity the run loop
// destroys the connection with ErrIdleTimeout (nextIdleTimeoutTime - idleTimeoutStartTime), and
// the 3*PTO floor that enters it.
func (v *VerifAdvEnfConn) IdleDeadline() (deadline, pto3 time.Duration) {
	c := v.C
	return c.nextIdleTimeoutTime().Sub(c.idleTimeoutStartTime()), c.rttStats.PTO(true) * 3
}

// SendDatagramProbe: Conn.SendDatagram of n bytes when the peer advertised max_datagram_frame_size
// mdfs and the MTU estimate is mtu. Returns whether it was accepted, the limit a
// DatagramTooLargeError reports (-1 otherwise), and the total size of the frame queued (type
// byte + length field + payload; 0 if none). The queued frame is removed again.
func (v *VerifAdvEnfConn) SendDatagramProbe(mdfs, mtu int64, n int) (ok bool, reported int64, frameSize int64, err error) {
	c := v.C
	if c.peerParams == nil {
		return false, -1, 0, errors.New("no peer parameters")
	}
	c.peerParams.MaxDatagramFrameSize = protocol.ByteCount(mdfs)
	c.currentMTUEstimate.Store(uint32(mtu))
	e := c.SendDatagram(make([]byte, n))
	if e == nil {
		if f := c.datagramQueue.Peek(); f != nil {
			frameSize = int64(f.Length(c.version))
			c.datagramQueue.Pop()
		}
		return true, -1, frameSize, nil
	}
	var tl *DatagramTooLargeError
	if errors.As(e, &tl) {
		return false, tl.MaxDatagramPayloadSize, 0, nil
	}
	return false, -1, 0, e
}

// VerifAdvEnfIdleDeadlineOf: nextIdleTimeoutTime - idleTimeoutStartTime and the 3*PTO that entered it,
// of any connection (read while its goroutines are idle).
func VerifAdvEnfIdleDeadlineOf(c *Conn) (deadline, pto3 time.Duration) {
	return c.nextIdleTimeoutTime().Sub(c.idleTimeoutStartTime()), c.rttStats.PTO(true) * 3
}

// VerifAdvEnfOutgoingMaxStreams: how many streams of the type this connection may open in total
// according to its own bookkeeping of the peer's limit (initial value and MAX_STREAMS received).
func VerifAdvEnfOutgoingMaxStreams(c *Conn, uni bool) int64 {
	m := c.streamsMap
	if uni {
		m.outgoingUniStreams.mutex.RLock()
		defer m.outgoingUniStreams.mutex.RUnlock()
		if m.outgoingUniStreams.maxStream == protocol.InvalidStreamID {
			return 0
		}
		return int64(m.outgoingUniStreams.maxStream.StreamNum())
	}
	m.outgoingBidiStreams.mutex.RLock()
	defer m.outgoingBidiStreams.mutex.RUnlock()
	if m.outgoingBidiStreams.maxStream == protocol.InvalidStreamID {
		return 0
	}
	return int64(m.outgoingBidiStreams.maxStream.StreamNum())
}
