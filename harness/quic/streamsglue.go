//go:build verif

package quic

// C15 (streamsglue): the connection's frame handling in front of the streams map. A real Conn is
// constructed the way the server / the transport does (newConnection / newClientConnection), with
// or without a qlog trace, never run; 1-RTT packet payloads are handed to
// handleUnpackedShortHeaderPacket with the `log` closure handleShortHeaderPacket builds when a
// tracer is attached. Add-only.

import (
	"context"
	"errors"
	"fmt"
	"net"
	"time"

	"github.com/refraction-networking/uquic/internal/handshake"
	"github.com/refraction-networking/uquic/internal/monotime"
	"github.com/refraction-networking/uquic/internal/protocol"
	"github.com/refraction-networking/uquic/internal/qerr"
	"github.com/refraction-networking/uquic/internal/utils"
	"github.com/refraction-networking/uquic/internal/wire"
	"github.com/refraction-networking/uquic/qlog"
	"github.com/refraction-networking/uquic/qlogwriter"
	tls "github.com/refraction-networking/utls"
)

type verifSGSendConn struct{ local, remote net.Addr }

func (c *verifSGSendConn) Write([]byte, uint16, protocol.ECN) error { return nil }
func (c *verifSGSendConn) WriteTo([]byte, net.Addr) error          { return nil }
func (c *verifSGSendConn) Close() error                            { return nil }
func (c *verifSGSendConn) LocalAddr() net.Addr                     { return c.local }
func (c *verifSGSendConn) RemoteAddr() net.Addr                    { return c.remote }
func (c *verifSGSendConn) ChangeRemoteAddr(net.Addr, packetInfo)   {}
func (c *verifSGSendConn) capabilities() connCapabilities          { return connCapabilities{} }

type verifSGRunner struct{}

func (verifSGRunner) Add(protocol.ConnectionID, packetHandler) bool             { return true }
func (verifSGRunner) Remove(protocol.ConnectionID)                              {}
func (verifSGRunner) ReplaceWithClosed([]protocol.ConnectionID, []byte, time.Duration) {}
func (verifSGRunner) AddResetToken(protocol.StatelessResetToken, packetHandler) {}
func (verifSGRunner) RemoveResetToken(protocol.StatelessResetToken)             {}

// verifSGTrace is a qlog trace that keeps the events in memory.
type verifSGTrace struct{ events []qlogwriter.Event }

func (t *verifSGTrace) AddProducer() qlogwriter.Recorder { return (*verifSGRecorder)(t) }
func (t *verifSGTrace) SupportsSchemas(string) bool      { return true }

type verifSGRecorder verifSGTrace

func (r *verifSGRecorder) RecordEvent(e qlogwriter.Event) { r.events = append(r.events, e) }
func (r *verifSGRecorder) Close() error                   { return nil }

// VerifSGConn is a constructed, not running connection.
type VerifSGConn struct {
	c      *Conn
	trace  *verifSGTrace
	client bool
	pn     protocol.PacketNumber

	streams []verifSGStream
}

// VerifSGFrame describes one frame of a packet payload.
// Kind: 0 STREAM (1 byte of data at offset 0), 1 RESET_STREAM, 2 STREAM_DATA_BLOCKED,
// 3 STOP_SENDING, 4 MAX_STREAM_DATA, 5 PING, 6 MAX_STREAMS (ID = count, Uni = type),
// 7 STREAM with FIN (1 byte at offset 0; RESET_STREAM has final size 1, so the two agree),
// 8 a malformed frame (unknown frame type).
type VerifSGFrame struct {
	Kind int
	ID   int64
	Uni  bool
}

func NewVerifSGConn(client, tracer bool, maxBidi, maxUni int64) (v *VerifSGConn, err error) {
	defer func() {
		if r := recover(); r != nil {
			err = fmt.Errorf("panic: %v", r)
		}
	}()
	conf := populateConfig(&Config{MaxIncomingStreams: maxBidi, MaxIncomingUniStreams: maxUni, DisablePathMTUDiscovery: true})
	if maxBidi == 0 {
		conf.MaxIncomingStreams = 0
	}
	if maxUni == 0 {
		conf.MaxIncomingUniStreams = 0
	}
	sc := &verifSGSendConn{
		local:  &net.UDPAddr{IP: net.IPv4(1, 0, 0, 1), Port: 9001},
		remote: &net.UDPAddr{IP: net.IPv4(1, 0, 0, 2), Port: 9002},
	}
	var tr *verifSGTrace
	var qt qlogwriter.Trace
	if tracer {
		tr = &verifSGTrace{}
		qt = tr
	}
	gen := &protocol.DefaultConnectionIDGenerator{ConnLen: 4}
	var wc *wrappedConn
	if client {
		wc = newClientConnection(context.Background(), sc, verifSGRunner{},
			protocol.ParseConnectionID([]byte{1, 2, 3, 4, 5, 6, 7, 8}), protocol.ParseConnectionID([]byte{4, 3, 2, 1}), gen,
			newStatelessResetter(nil), conf, &tls.Config{ServerName: "verif.invalid", InsecureSkipVerify: true}, 0, false, false, qt,
			utils.DefaultLogger, protocol.Version1)
	} else {
		ctx, cancel := context.WithCancelCause(context.Background())
		wc = newConnection(ctx, cancel, sc, verifSGRunner{},
			protocol.ParseConnectionID([]byte{1, 2, 3, 4, 5, 6, 7, 8}), nil,
			protocol.ParseConnectionID([]byte{1, 2, 3, 4, 5, 6, 7, 8}), protocol.ParseConnectionID([]byte{9, 9, 9, 9}),
			protocol.ParseConnectionID([]byte{4, 3, 2, 1}), gen, newStatelessResetter(nil),
			conf, &tls.Config{}, handshake.NewTokenGenerator(handshake.TokenProtectorKey{}), true, 0, qt,
			utils.DefaultLogger, protocol.Version1)
	}
	c := wc.Conn
	// the peer's transport parameters are needed to create flow controllers for new streams
	c.peerParams = &wire.TransportParameters{
		InitialMaxStreamDataBidiLocal: 1 << 20, InitialMaxStreamDataBidiRemote: 1 << 20,
		InitialMaxStreamDataUni: 1 << 20, InitialMaxData: 1 << 20,
	}
	c.handshakeComplete = true
	return &VerifSGConn{c: c, trace: tr, client: client}, nil
}

func verifSGWire(f VerifSGFrame) wire.Frame {
	id := protocol.StreamID(f.ID)
	switch f.Kind {
	case 0:
		return &wire.StreamFrame{StreamID: id, Data: []byte("x"), DataLenPresent: true}
	case 1:
		return &wire.ResetStreamFrame{StreamID: id, ErrorCode: 1, FinalSize: 1}
	case 7:
		return &wire.StreamFrame{StreamID: id, Data: []byte("x"), DataLenPresent: true, Fin: true}
	case 2:
		return &wire.StreamDataBlockedFrame{StreamID: id, MaximumStreamData: 1}
	case 3:
		return &wire.StopSendingFrame{StreamID: id, ErrorCode: 1}
	case 4:
		return &wire.MaxStreamDataFrame{StreamID: id, MaximumStreamData: 1000}
	case 6:
		t := protocol.StreamTypeBidi
		if f.Uni {
			t = protocol.StreamTypeUni
		}
		return &wire.MaxStreamsFrame{Type: t, MaxStreamNum: protocol.StreamNum(f.ID)}
	}
	return &wire.PingFrame{}
}

// Packet serialises the frames into one 1-RTT payload and handles it like
// handleShortHeaderPacket does after unpacking. Returns the error class
// (0 none, 1 STREAM_STATE_ERROR, 2 STREAM_LIMIT_ERROR, 8 FRAME_ENCODING_ERROR, 7 other), the transport error code (or -1)
// and the number of frames the tracer was given (-1 without a tracer).
func (v *VerifSGConn) Packet(frames []VerifSGFrame) (class int, code int64, logged int, msg string) {
	defer func() {
		if r := recover(); r != nil {
			class, code, msg = 7, -2, fmt.Sprintf("panic: %v", r)
		}
	}()
	var data []byte
	for _, f := range frames {
		if f.Kind == 8 { // a frame type that does not exist: the parser fails with FRAME_ENCODING_ERROR
			data = append(data, 0x1f)
			continue
		}
		var err error
		data, err = verifSGWire(f).Append(data, protocol.Version1)
		if err != nil {
			return 7, -3, -1, err.Error()
		}
	}
	c := v.c
	destConnID := protocol.ParseConnectionID([]byte{4, 3, 2, 1})
	pn := v.pn
	v.pn++
	logged = -1
	var log func([]qlog.Frame)
	if c.qlogger != nil { // as in handleShortHeaderPacket
		log = func(fs []qlog.Frame) {
			logged = len(fs)
			c.qlogger.RecordEvent(qlog.PacketReceived{
				Header: qlog.PacketHeader{PacketType: qlog.PacketType1RTT, DestConnectionID: destConnID, PacketNumber: pn},
				Raw:    qlog.RawInfo{Length: len(data) + 10, PayloadLength: len(data)},
				Frames: fs,
			})
		}
	}
	_, _, err := c.handleUnpackedShortHeaderPacket(destConnID, pn, data, protocol.ECNNon, monotime.Now(), log)
	if err == nil {
		return 0, -1, logged, ""
	}
	var te *qerr.TransportError
	if errors.As(err, &te) {
		switch te.ErrorCode {
		case qerr.StreamStateError:
			return 1, int64(te.ErrorCode), logged, te.Error()
		case qerr.StreamLimitError:
			return 2, int64(te.ErrorCode), logged, te.Error()
		case qerr.FrameEncodingError:
			return 8, int64(te.ErrorCode), logged, te.Error()
		}
		return 7, int64(te.ErrorCode), logged, te.Error()
	}
	return 7, -1, logged, err.Error()
}

// HasTracer reports whether the connection records qlog events.
func (v *VerifSGConn) HasTracer() bool { return v.c.qlogger != nil }

// In returns (nextStreamToAccept, nextStreamToOpen, maxStream, number of streams in the map) of
// the incoming map of the given type.
func (v *VerifSGConn) In(uni bool) (int64, int64, int64, int64) {
	var s VerifSMIn
	if uni {
		s = verifSnapIn(v.c.streamsMap.incomingUniStreams)
	} else {
		s = verifSnapIn(v.c.streamsMap.incomingBidiStreams)
	}
	return s.NextAccept, s.NextOpen, s.Max, int64(len(s.Streams))
}

// Shutdown releases the connection's resources.
func (v *VerifSGConn) Shutdown() {
	defer func() { _ = recover() }()
	v.c.streamsMap.CloseWithError(errVerifSMClosed)
}

// ---- round 4: the application's side and stream completion through the connection ----

type verifSGStream struct {
	id   int64
	recv *ReceiveStream // nil for our own unidirectional streams
	send *SendStream    // nil for the peer's unidirectional streams
}

func (v *VerifSGConn) keep(s verifSGStream) int {
	v.streams = append(v.streams, s)
	return len(v.streams) - 1
}

func verifSGCancelledCtx() context.Context {
	ctx, cancel := context.WithCancel(context.Background())
	cancel()
	return ctx
}

// Accept calls Conn.AcceptStream / AcceptUniStream with an already cancelled context: it returns
// the next stream if one is ready and never blocks. handle < 0: no stream (class = error class,
// 6 = the context's error).
func (v *VerifSGConn) Accept(uni bool) (handle int, id int64, class int) {
	if uni {
		s, err := v.c.AcceptUniStream(verifSGCancelledCtx())
		if err != nil {
			return -1, -1, verifSMErrClass(err)
		}
		return v.keep(verifSGStream{id: int64(s.StreamID()), recv: s}), int64(s.StreamID()), 0
	}
	s, err := v.c.AcceptStream(verifSGCancelledCtx())
	if err != nil {
		return -1, -1, verifSMErrClass(err)
	}
	return v.keep(verifSGStream{id: int64(s.StreamID()), recv: s.receiveStr, send: s.sendStr}), int64(s.StreamID()), 0
}

// Open calls Conn.OpenStream / OpenUniStream.
func (v *VerifSGConn) Open(uni bool) (handle int, id int64, class int) {
	if uni {
		s, err := v.c.OpenUniStream()
		if err != nil {
			return -1, -1, verifSMErrClass(err)
		}
		return v.keep(verifSGStream{id: int64(s.StreamID()), send: s}), int64(s.StreamID()), 0
	}
	s, err := v.c.OpenStream()
	if err != nil {
		return -1, -1, verifSMErrClass(err)
	}
	return v.keep(verifSGStream{id: int64(s.StreamID()), recv: s.receiveStr, send: s.sendStr}), int64(s.StreamID()), 0
}

// Abandon is what an application does when it is done with a stream: CancelRead on the receive
// half, CancelWrite on the send half; then everything the connection wants to send is taken out
// of the framer (as the packer does) and acknowledged, so that the RESET_STREAM is acked.
func (v *VerifSGConn) Abandon(handle int) []VerifSMFrame {
	s := v.streams[handle]
	if s.recv != nil {
		s.recv.CancelRead(3)
	}
	if s.send != nil {
		s.send.CancelWrite(4)
	}
	return v.FlushAck()
}

// FlushAck empties the framer the way the packet packer does and acknowledges every frame.
// Returns the MAX_STREAMS and STREAMS_BLOCKED frames among them, in order.
func (v *VerifSGConn) FlushAck() (out []VerifSMFrame) {
	for round := 0; round < 20; round++ {
		// MAX_STREAMS / STREAMS_BLOCKED in the order they were queued (the framer packs its
		// control frames last-in-first-out, which is irrelevant for the property)
		v.c.framer.controlFrameMutex.Lock()
		for _, f := range v.c.framer.controlFrames {
			switch g := f.(type) {
			case *wire.MaxStreamsFrame:
				out = append(out, VerifSMFrame{Uni: g.Type == protocol.StreamTypeUni, Num: int64(g.MaxStreamNum)})
			case *wire.StreamsBlockedFrame:
				out = append(out, VerifSMFrame{Blocked: true, Uni: g.Type == protocol.StreamTypeUni, Num: int64(g.StreamLimit)})
			}
		}
		v.c.framer.controlFrameMutex.Unlock()
		frames, sframes, _ := v.c.framer.Append(nil, nil, 1200, monotime.Now(), protocol.Version1)
		if len(frames) == 0 && len(sframes) == 0 {
			break
		}
		for _, f := range frames {
			if f.Handler != nil {
				f.Handler.OnAcked(f.Frame)
			}
		}
		for _, f := range sframes {
			if f.Handler != nil {
				f.Handler.OnAcked(f.Frame)
			}
		}
	}
	return out
}

func verifSGParams(nb, nu int64, rsa bool) *wire.TransportParameters {
	return &wire.TransportParameters{
		InitialMaxStreamDataBidiLocal: 1 << 20, InitialMaxStreamDataBidiRemote: 1 << 20,
		InitialMaxStreamDataUni: 1 << 20, InitialMaxData: 1 << 20,
		MaxBidiStreamNum: protocol.StreamNum(nb), MaxUniStreamNum: protocol.StreamNum(nu),
		ActiveConnectionIDLimit: 2, MaxAckDelay: protocol.DefaultMaxAckDelay, AckDelayExponent: protocol.DefaultAckDelayExponent,
		MaxUDPPayloadSize: protocol.MaxByteCount, EnableResetStreamAt: rsa,
	}
}

// Restore is Conn.restoreTransportParameters (client, 0-RTT): the remembered parameters.
func (v *VerifSGConn) Restore(nb, nu int64, rsa bool) {
	v.c.restoreTransportParameters(verifSGParams(nb, nu, rsa))
}

// Apply stores the peer's parameters and calls Conn.applyTransportParameters, as the run loop
// does when they arrive (server) / when the handshake completes (client).
func (v *VerifSGConn) Apply(nb, nu int64, rsa bool) {
	v.c.peerParams = verifSGParams(nb, nu, rsa)
	v.c.applyTransportParameters()
}

// Reject0RTT is what the client does when the server rejects 0-RTT: dropEncryptionLevel(0-RTT).
func (v *VerifSGConn) Reject0RTT() (class int, msg string) {
	defer func() {
		if r := recover(); r != nil {
			class, msg = 7, fmt.Sprintf("panic: %v", r)
		}
	}()
	if err := v.c.dropEncryptionLevel(protocol.Encryption0RTT, monotime.Now()); err != nil {
		return 7, err.Error()
	}
	return 0, ""
}

// UseReset is the effect of Conn.NextConnection once the handshake completed.
func (v *VerifSGConn) UseReset() { v.c.streamsMap.UseResetMaps() }

// InFull: the incoming map's fields incl. the streams with their shouldDelete flag.
func (v *VerifSGConn) InFull(uni bool) VerifSMIn {
	if uni {
		return verifSnapIn(v.c.streamsMap.incomingUniStreams)
	}
	return verifSnapIn(v.c.streamsMap.incomingBidiStreams)
}

// OutFull: the outgoing map's fields.
func (v *VerifSGConn) OutFull(uni bool) VerifSMOut {
	if uni {
		return verifSnapOut(v.c.streamsMap.outgoingUniStreams)
	}
	return verifSnapOut(v.c.streamsMap.outgoingBidiStreams)
}

// ClosedWith: error class the connection was closed with by its own code (closeLocal), 0 if open.
func (v *VerifSGConn) ClosedWith() int {
	if e := v.c.closeErr.Load(); e != nil {
		return verifSMErrClass(e.err)
	}
	return 0
}

// ---- whole simulated connection: make one endpoint exceed the peer's stream limit ----

// VerifSGMisleadLimit makes a running connection believe its peer allows n streams of the given
// type (as if a MAX_STREAMS frame had arrived), so that it will violate the peer's real limit.
func VerifSGMisleadLimit(c *Conn, uni bool, n int64) {
	t := protocol.StreamTypeBidi
	if uni {
		t = protocol.StreamTypeUni
	}
	c.streamsMap.HandleMaxStreamsFrame(&wire.MaxStreamsFrame{Type: t, MaxStreamNum: protocol.StreamNum(n)})
}

// VerifSGNewTrace returns an in-memory qlog trace (for Config.Tracer).
func VerifSGNewTrace() qlogwriter.Trace { return &verifSGTrace{} }

// VerifSGCloseClass classifies the error a connection was closed with:
// (remote, class) with class 1 STREAM_STATE_ERROR, 2 STREAM_LIMIT_ERROR, 7 other, 0 none.
func VerifSGCloseClass(err error) (remote bool, class int, text string) {
	if err == nil {
		return false, 0, ""
	}
	var te *qerr.TransportError
	if errors.As(err, &te) {
		switch te.ErrorCode {
		case qerr.StreamStateError:
			return te.Remote, 1, te.Error()
		case qerr.StreamLimitError:
			return te.Remote, 2, te.Error()
		}
		return te.Remote, 7, te.Error()
	}
	return false, 7, err.Error()
}
