//go:build verif

package http3

// Verification harness for property C19 (unit H3Headers). ADD-ONLY: thin exported
// wrappers around the unexported parsers/writers of this package, plus the tables the
// compiled code really uses (emitted into coq/Gen/Params.v on every check).

import (
	"bytes"
	"context"
	"encoding/hex"
	"errors"
	"fmt"
	"io"
	"log/slog"
	"net/http"
	"strings"
	"time"

	"github.com/quic-go/qpack"
	quic "github.com/refraction-networking/uquic"
	"golang.org/x/net/http/httpguts"
)

// VerifDecodeFn is a list-backed qpack.DecodeFunc: it yields fs in order and then io.EOF,
// or (tailErr) a non-EOF decoding error, like a corrupted field section would.
func VerifDecodeFn(fs []qpack.HeaderField, tailErr bool) qpack.DecodeFunc {
	i := 0
	return func() (qpack.HeaderField, error) {
		if i < len(fs) {
			f := fs[i]
			i++
			return f, nil
		}
		if tailErr {
			return qpack.HeaderField{}, errors.New("verif: injected decoding error")
		}
		return qpack.HeaderField{}, io.EOF
	}
}

// VerifErrClass classifies an error with exactly the tests server_conn.go / stream.go use
// to choose the error code: 0 = nil, 1 = errHeaderTooLarge (431 / H3_EXCESSIVE_LOAD),
// 2 = *qpackError (QPACK_DECOMPRESSION_FAILED), 3 = anything else (H3_MESSAGE_ERROR).
func VerifErrClass(err error) int {
	if err == nil {
		return 0
	}
	if errors.Is(err, errHeaderTooLarge) {
		return 1
	}
	var qe *qpackError
	if errors.As(err, &qe) {
		return 2
	}
	return 3
}

// VerifHdr mirrors the unexported header struct.
type VerifHdr struct {
	Path, Method, Authority, Scheme, Status, Protocol string
	ContentLength                                     int64
	Headers                                           http.Header
}

func VerifParseHeaders(fs []qpack.HeaderField, tailErr, isRequest bool, limit int) (VerifHdr, int, error) {
	var logged []qpack.HeaderField
	h, err := parseHeaders(VerifDecodeFn(fs, tailErr), isRequest, limit, &logged)
	return VerifHdr{h.Path, h.Method, h.Authority, h.Scheme, h.Status, h.Protocol, h.ContentLength, h.Headers}, len(logged), err
}

func VerifParseTrailers(fs []qpack.HeaderField, tailErr bool, limit int) (http.Header, int, error) {
	var logged []qpack.HeaderField
	h, err := parseTrailers(VerifDecodeFn(fs, tailErr), limit, &logged)
	return h, len(logged), err
}

func VerifRequestFromHeaders(fs []qpack.HeaderField, tailErr bool, limit int) (*http.Request, int, error) {
	var logged []qpack.HeaderField
	r, err := requestFromHeaders(VerifDecodeFn(fs, tailErr), limit, &logged)
	return r, len(logged), err
}

func VerifUpdateResponse(fs []qpack.HeaderField, tailErr bool, limit int) (*http.Response, int, error) {
	var logged []qpack.HeaderField
	rsp := &http.Response{}
	err := updateResponseFromHeaders(rsp, VerifDecodeFn(fs, tailErr), limit, &logged)
	return rsp, len(logged), err
}

// ---- writers ----

// VerifEncodeRequest drives the real requestWriter (writeHeaders -> encodeHeaders -> qpack
// encoder), strips the HEADERS frame header with the real frame parser and decodes the
// block with a real qpack decoder. It returns the emitted field list.
func VerifEncodeRequest(req *http.Request, gzip bool) ([]qpack.HeaderField, error) {
	w := newRequestWriter()
	buf := &bytes.Buffer{}
	if err := w.WriteRequestHeader(buf, req, gzip, quic.StreamID(0), nil); err != nil { // the method the client calls
		return nil, err
	}
	return verifDecodeHeadersFrame(buf)
}

func verifDecodeHeadersFrame(buf *bytes.Buffer) ([]qpack.HeaderField, error) {
	fr, err := (&frameParser{r: buf}).ParseNext(nil)
	if err != nil {
		return nil, fmt.Errorf("verif: frame: %w", err)
	}
	hf, ok := fr.(*headersFrame)
	if !ok {
		return nil, fmt.Errorf("verif: not a HEADERS frame: %T", fr)
	}
	block := make([]byte, hf.Length)
	if _, err := io.ReadFull(buf, block); err != nil {
		return nil, fmt.Errorf("verif: short block: %w", err)
	}
	dec := qpack.NewDecoder()
	fn := dec.Decode(block)
	var out []qpack.HeaderField
	for {
		f, err := fn()
		if err == io.EOF {
			return out, nil
		}
		if err != nil {
			return out, fmt.Errorf("verif: qpack: %w", err)
		}
		out = append(out, f)
	}
}

type verifStream struct{ buf bytes.Buffer }

func (s *verifStream) Read([]byte) (int, error)                       { return 0, io.EOF }
func (s *verifStream) Write(b []byte) (int, error)                    { return s.buf.Write(b) }
func (s *verifStream) Close() error                                   { return nil }
func (s *verifStream) CancelRead(quic.StreamErrorCode)                {}
func (s *verifStream) CancelWrite(quic.StreamErrorCode)               {}
func (s *verifStream) StreamID() quic.StreamID                        { return 0 }
func (s *verifStream) Context() context.Context                       { return context.Background() }
func (s *verifStream) SetDeadline(time.Time) error                    { return nil }
func (s *verifStream) SetReadDeadline(time.Time) error                { return nil }
func (s *verifStream) SetWriteDeadline(time.Time) error               { return nil }
func (s *verifStream) SendDatagram([]byte) error                      { return nil }
func (s *verifStream) ReceiveDatagram(context.Context) ([]byte, error) { return nil, io.EOF }
func (s *verifStream) QUICStream() *quic.Stream                       { return nil }

// VerifEncodeResponse drives the real responseWriter: the handler-visible header map is
// filled from hdr, WriteHeader(status) is called, body (may be empty) written, flushed;
// then trailers are set (trailerVals: canonical key -> values, assigned after the body as
// a handler would, or already before WriteHeader when early) and flushed. It returns the decoded field lists of the HEADERS frame and
// of the trailer HEADERS frame (nil if none was written).
func VerifEncodeResponse(status int, hdr http.Header, body []byte, trailerVals http.Header, early bool) (fields, trailers []qpack.HeaderField, err error) {
	fields, trailers, _, _, err = VerifEncodeResponseSnap(status, hdr, body, trailerVals, early)
	return fields, trailers, err
}

// VerifEncodeResponseSnap is VerifEncodeResponse that also returns the writer's header map as it
// was when the HEADERS frame was serialised (snap1: after WriteHeader's Date / Content-Length
// handling and content-type sniffing) and when the trailers were flushed (snap2). These maps are
// the abstract response of the H3Writers model.
func VerifEncodeResponseSnap(status int, hdr http.Header, body []byte, trailerVals http.Header, early bool) (fields, trailers []qpack.HeaderField, snap1, snap2 http.Header, err error) {
	s := &verifStream{}
	str := newStream(s, nil, nil, func(io.Reader, *headersFrame) error { return nil }, nil)
	rw := newResponseWriter(str, nil, false, slog.New(slog.NewTextHandler(io.Discard, nil)))
	for k, vv := range hdr {
		rw.Header()[k] = append([]string(nil), vv...)
	}
	if early { // a handler may also set the values of declared trailers before WriteHeader
		for k, vv := range trailerVals {
			rw.Header()[k] = append([]string(nil), vv...)
		}
	}
	rw.WriteHeader(status)
	if len(body) > 0 {
		if _, err := rw.Write(body); err != nil {
			return nil, nil, nil, nil, fmt.Errorf("verif: body write: %w", err)
		}
	}
	rw.Flush()
	snap1 = rw.header.Clone()
	fields, err = verifDecodeHeadersFrame(&s.buf)
	if err != nil {
		return nil, nil, snap1, nil, err
	}
	// skip the DATA frame, if any
	if len(body) > 0 {
		fr, err := (&frameParser{r: &s.buf}).ParseNext(nil)
		if err != nil {
			return fields, nil, snap1, nil, fmt.Errorf("verif: data frame: %w", err)
		}
		df, ok := fr.(*dataFrame)
		if !ok {
			return fields, nil, snap1, nil, fmt.Errorf("verif: expected DATA frame, got %T", fr)
		}
		s.buf.Next(int(df.Length))
	}
	for k, vv := range trailerVals {
		rw.Header()[k] = append([]string(nil), vv...)
	}
	snap2 = rw.header.Clone()
	rw.flushTrailers()
	if s.buf.Len() > 0 {
		trailers, err = verifDecodeHeadersFrame(&s.buf)
		if err != nil {
			return fields, nil, snap1, snap2, fmt.Errorf("verif: trailers: %w", err)
		}
		if trailers == nil {
			trailers = []qpack.HeaderField{}
		}
	}
	return fields, trailers, snap1, snap2, nil
}

// VerifEncodeRequestTrailers drives the exported WriteRequestTrailer (the method the client calls
// after the body). written = something was put on the stream.
func VerifEncodeRequestTrailers(tr http.Header) ([]qpack.HeaderField, bool, error) {
	buf := &bytes.Buffer{}
	if err := newRequestWriter().WriteRequestTrailer(buf, &http.Request{Trailer: tr}, quic.StreamID(0), nil); err != nil {
		return nil, buf.Len() > 0, err
	}
	if buf.Len() == 0 {
		return nil, false, nil
	}
	fs, err := verifDecodeHeadersFrame(buf)
	return fs, true, err
}

// VerifDecodeTrailers drives the REAL receive-side glue for trailers, decodeTrailers (the function
// client.go and server_conn.go install as the stream's trailer parser): fs is QPACK-encoded with the
// real encoder (static table + Huffman, as the writers do), wrapped in a headersFrame of that length,
// optionally cut short on the stream, and handed to decodeTrailers with maxHeaderBytes.
// roundtrip reports whether a fresh real decoder gives back exactly fs (the "qpack is the identity on
// field lists" assumption of the H3Writers model).
func VerifDecodeTrailers(fs []qpack.HeaderField, maxHeaderBytes int, truncate int) (hdr http.Header, encLen int, roundtrip bool, err error) {
	var block bytes.Buffer
	enc := qpack.NewEncoder(&block)
	for _, f := range fs {
		if err := enc.WriteField(f); err != nil {
			return nil, 0, false, fmt.Errorf("verif: encode: %w", err)
		}
	}
	b := block.Bytes()
	encLen = len(b)
	roundtrip = true
	if encLen > 0 {
		fn := qpack.NewDecoder().Decode(b)
		for i := 0; ; i++ {
			f, derr := fn()
			if derr == io.EOF {
				roundtrip = roundtrip && i == len(fs)
				break
			}
			if derr != nil || i >= len(fs) || f != fs[i] {
				roundtrip = false
				break
			}
		}
	}
	if truncate > encLen {
		truncate = encLen
	}
	hdr, err = decodeTrailers(bytes.NewReader(b[:encLen-truncate]), &headersFrame{Length: uint64(encLen)}, maxHeaderBytes, qpack.NewDecoder(), nil, quic.StreamID(0))
	return hdr, encLen, roundtrip, err
}

// VerifWReq is the abstract request of the H3Writers model: what encodeHeaders reads from the
// http.Request, after the steps that live outside /repo (PunycodeHostPort, ValidHostHeader,
// URL.RequestURI).
type VerifWReq struct {
	Method, Scheme, Host string
	HostOK             bool
	URI, Proto         string
	CL                 int64
}

func VerifAbstractRequest(req *http.Request) VerifWReq {
	host := req.Host
	if host == "" {
		host = req.URL.Host
	}
	h, err := httpguts.PunycodeHostPort(host)
	return VerifWReq{req.Method, req.URL.Scheme, h, err == nil && httpguts.ValidHostHeader(h), req.URL.RequestURI(), req.Proto, actualContentLength(req)}
}

// ---- tables for coq/Gen/Params.v ----

func verifBoolTable(f func(b byte) bool) string {
	var sb strings.Builder
	sb.WriteString("list bool := [")
	for i := 0; i < 256; i++ {
		if i > 0 {
			sb.WriteString("; ")
		}
		if f(byte(i)) {
			sb.WriteString("true")
		} else {
			sb.WriteString("false")
		}
	}
	sb.WriteString("]")
	return sb.String()
}

// VerifTrailerProbes: names on which httpguts.ValidTrailerHeader (whose table is unexported)
// is sampled; the model's transliteration must agree on all of them (lemma in Proofs.v).
var VerifTrailerProbes = []string{
	"authorization", "cache-control", "connection", "content-encoding", "content-length", "content-range",
	"content-type", "expect", "host", "keep-alive", "max-forwards", "pragma", "proxy-authenticate",
	"proxy-authorization", "proxy-connection", "range", "realm", "te", "trailer", "transfer-encoding",
	"www-authenticate", "if-match", "if-none-match", "if-", "if", "i", "if_x", "iff-x", "x-if-y",
	"accept", "cookie", "set-cookie", "date", "etag", "x-trailer", "grpc-status", "grpc-message", "server-timing",
	"content-md5", "digest", "upgrade", "user-agent", "x", "a-b", "content-typ", "content-types", "tee", "t",
	"age", "vary", "location", "retry-after", "warning", "via", "origin", "referer", "accept-encoding",
}

// VerifTables exposes the byte tables and name lists the compiled parser uses.
func VerifTables() [][2]any {
	hexList := func(xs []string) string {
		q := make([]string, len(xs))
		for i, x := range xs {
			q[i] = `"` + hex.EncodeToString([]byte(x)) + `"`
		}
		return "list string := [" + strings.Join(q, "; ") + "]%string"
	}
	probes := make([]string, len(VerifTrailerProbes))
	for i, p := range VerifTrailerProbes {
		b := "false"
		if httpguts.ValidTrailerHeader(p) {
			b = "true"
		}
		probes[i] = `("` + hex.EncodeToString([]byte(p)) + `"%string, ` + b + `)`
	}
	return [][2]any{
		// the very functions validateRegularHeaderField / validateHeaderFieldNameAndValue call, byte by byte
		{"h3TokenTable", verifBoolTable(func(b byte) bool { return httpguts.ValidHeaderFieldName(string([]byte{b})) })},
		{"h3ValueTable", verifBoolTable(func(b byte) bool { return httpguts.ValidHeaderFieldValue(string([]byte{b})) })},
		{"h3LowerTable", verifBoolTable(func(b byte) bool { s := string([]byte{b}); return strings.ToLower(s) == s })},
		{"h3InvalidHeaderFields", hexList(invalidHeaderFields[:])},
		{"h3MethodConnect", `string := "` + hex.EncodeToString([]byte(http.MethodConnect)) + `"%string`},
		{"h3TrailerProbes", "list (string * bool) := [" + strings.Join(probes, "; ") + "]"},
		{"h3FieldOverhead", int64(verifFieldOverhead())},
		{"h3DefaultUserAgent", `string := "` + hex.EncodeToString([]byte(defaultUserAgent)) + `"%string`},
		{"h3TrailerPrefix", `string := "` + hex.EncodeToString([]byte(http.TrailerPrefix)) + `"%string`},
	}
}

// verifFieldOverhead measures the per-field size overhead parseHeaders charges
// (RFC 9114 section 4.2.2 says 32): the smallest limit that admits a single empty field.
func verifFieldOverhead() int {
	for l := 0; l < 4096; l++ {
		_, err := parseTrailers(VerifDecodeFn([]qpack.HeaderField{{Name: "x", Value: ""}}, false), l, nil)
		if err == nil {
			return l - 1
		}
	}
	return -1
}
