//go:build verif

package http3

// Harness glue for property C18 (units h3frames / h3stream): runs the REAL frameParser,
// Stream and body of this package over a scripted quic stream whose Read returns
// arbitrary short reads.  Add-only: calls unexported constructors, reads unexported fields.

import (
	"context"
	"errors"
	"fmt"
	"io"
	"reflect"
	"sort"
	"strings"
	"time"

	quic "github.com/refraction-networking/uquic"
)

// VerifH3SConsts: constants of this package used by the Coq model (coq/Gen/Params.v).
func VerifH3SConsts() [][2]any {
	return [][2]any{
		{"h3ErrCodeFrameUnexpected", int64(ErrCodeFrameUnexpected)},
		{"h3ErrCodeMessageError", int64(ErrCodeMessageError)},
		{"h3ErrCodeFrameError", int64(ErrCodeFrameError)},
		{"h3SettingMaxFieldSectionSize", int64(settingMaxFieldSectionSize)},
		{"h3SettingExtendedConnect", int64(settingExtendedConnect)},
		{"h3SettingDatagram", int64(settingDatagram)},
		{"h3FrameHeaderLen", int64(frameHeaderLen)},
		{"h3ErrCodeNoError", int64(ErrCodeNoError)},
		{"h3ErrCodeStreamCreationError", int64(ErrCodeStreamCreationError)},
		{"h3ErrCodeClosedCriticalStream", int64(ErrCodeClosedCriticalStream)},
		{"h3ErrCodeIDError", int64(ErrCodeIDError)},
		{"h3ErrCodeMissingSettings", int64(ErrCodeMissingSettings)},
		{"h3ErrCodeSettingsError", int64(ErrCodeSettingsError)},
		{"h3ErrCodeRequestIncomplete", int64(ErrCodeRequestIncomplete)},
		{"h3ErrCodeExcessiveLoad", int64(ErrCodeExcessiveLoad)},
		{"h3StreamTypeControl", int64(streamTypeControlStream)},
		{"h3StreamTypePush", int64(streamTypePushStream)},
		{"h3StreamTypeQPACKEncoder", int64(streamTypeQPACKEncoderStream)},
		{"h3StreamTypeQPACKDecoder", int64(streamTypeQPACKDecoderStream)},
	}
}

// VerifH3SScript is the abstract byte source: a fixed byte string, delivered in short reads
// chosen by Sched (the k-th Read call that delivers data returns at most max(1,Sched[k])
// bytes; unlimited once the schedule is used up), followed by the terminal error Fin
// (io.EOF or a stream error), delivered together with the last bytes when FinWith is set.
type VerifH3SScript struct {
	Data    []byte
	Sched   []int
	Fin     error
	FinWith bool

	Written    [][]byte   // every underlying Write call
	Cancels    [][2]int64 // (0 = CancelRead | 1 = CancelWrite, code), in call order
	ReadCalls  int
	CloseN     int
	WriteErrAt int // the k-th (1-based) underlying Write fails with a stream error; 0 = never
}

var _ datagramStream = &VerifH3SScript{}

// VerifH3SFin builds the terminal error from its class: (1,_) = io.EOF, (2,a) = stream error
// with code a/2, remote iff a odd.
func VerifH3SFin(cls, arg int64) error {
	if cls == 2 {
		return &quic.StreamError{StreamID: 4, ErrorCode: quic.StreamErrorCode(arg / 2), Remote: arg%2 == 1}
	}
	return io.EOF
}

func (s *VerifH3SScript) Read(p []byte) (int, error) {
	s.ReadCalls++
	if len(s.Data) == 0 {
		return 0, s.Fin
	}
	if len(p) == 0 {
		return 0, nil
	}
	c := len(p)
	if len(s.Sched) > 0 {
		c = max(1, s.Sched[0])
		s.Sched = s.Sched[1:]
	}
	n := min(len(p), c, len(s.Data))
	copy(p, s.Data[:n])
	s.Data = s.Data[n:]
	if len(s.Data) == 0 && s.FinWith {
		return n, s.Fin
	}
	return n, nil
}

func (s *VerifH3SScript) Write(p []byte) (int, error) {
	if s.WriteErrAt > 0 && len(s.Written)+1 == s.WriteErrAt {
		s.Written = append(s.Written, nil)
		return 0, &quic.StreamError{StreamID: 4, ErrorCode: 0x10c, Remote: true}
	}
	s.Written = append(s.Written, append([]byte{}, p...))
	return len(p), nil
}
func (s *VerifH3SScript) Close() error { s.CloseN++; return nil }
func (s *VerifH3SScript) CancelRead(c quic.StreamErrorCode) {
	s.Cancels = append(s.Cancels, [2]int64{0, int64(c)})
}
func (s *VerifH3SScript) CancelWrite(c quic.StreamErrorCode) {
	s.Cancels = append(s.Cancels, [2]int64{1, int64(c)})
}
func (s *VerifH3SScript) StreamID() quic.StreamID                         { return 4 }
func (s *VerifH3SScript) Context() context.Context                        { return context.Background() }
func (s *VerifH3SScript) SetDeadline(time.Time) error                     { return nil }
func (s *VerifH3SScript) SetReadDeadline(time.Time) error                 { return nil }
func (s *VerifH3SScript) SetWriteDeadline(time.Time) error                { return nil }
func (s *VerifH3SScript) SendDatagram([]byte) error                       { return nil }
func (s *VerifH3SScript) ReceiveDatagram(context.Context) ([]byte, error) { return nil, io.EOF }
func (s *VerifH3SScript) QUICStream() *quic.Stream                        { return nil }

// Error classes (the small enum the model speaks).
const (
	VerifH3SErrNil = iota
	VerifH3SErrEOF
	VerifH3SErrStream      // *quic.StreamError as returned by the quic stream; arg = 2*code+remote
	VerifH3SErrH3          // *http3.Error (after maybeReplaceError); arg = 2*code+remote
	VerifH3SErrTooMuchData // errTooMuchData
	VerifH3SErrDataAfterTrailers
	VerifH3SErrHeadersAfterTrailers
	VerifH3SErrUnexpectedFrame
	VerifH3SErrReserved // arg = frame type
	VerifH3SErrSettingsSize
	VerifH3SErrSettingsDup  // arg = setting id
	VerifH3SErrSettingsBool // arg = setting id
	VerifH3SErrGoawayLen
	VerifH3SErrUnexpectedEOF
	VerifH3SErrTrailerTooLarge
	VerifH3SErrTruncated // errFrameTruncated of the frame parser: wraps io.EOF without being io.EOF
	VerifH3SErrOther     = 99
)

var verifH3STrailerTooLarge = errors.New("verif: trailer HEADERS frame too large")

func VerifH3SErrClass(err error) (int64, int64) {
	if err == nil {
		return VerifH3SErrNil, 0
	}
	var se *quic.StreamError
	var he *Error
	b2i := func(b bool) int64 {
		if b {
			return 1
		}
		return 0
	}
	var n int64
	msg := err.Error()
	switch {
	case err == io.EOF:
		return VerifH3SErrEOF, 0
	case err == io.ErrUnexpectedEOF:
		return VerifH3SErrUnexpectedEOF, 0
	case errors.Is(err, io.EOF):
		return VerifH3SErrTruncated, 0
	case err == errTooMuchData:
		return VerifH3SErrTooMuchData, 0
	case err == verifH3STrailerTooLarge:
		return VerifH3SErrTrailerTooLarge, 0
	case errors.As(err, &he):
		return VerifH3SErrH3, 2*int64(he.ErrorCode) + b2i(he.Remote)
	case errors.As(err, &se):
		return VerifH3SErrStream, 2*int64(se.ErrorCode) + b2i(se.Remote)
	case msg == "DATA frame received after trailers":
		return VerifH3SErrDataAfterTrailers, 0
	case msg == "additional HEADERS frame received after trailers":
		return VerifH3SErrHeadersAfterTrailers, 0
	case strings.HasPrefix(msg, "peer sent an unexpected frame"):
		return VerifH3SErrUnexpectedFrame, 0
	case scan(msg, "http3: reserved frame type: %d", &n):
		return VerifH3SErrReserved, n
	case strings.HasPrefix(msg, "unexpected size for SETTINGS frame"):
		return VerifH3SErrSettingsSize, 0
	case scan(msg, "duplicate setting: %d", &n):
		return VerifH3SErrSettingsDup, n
	case strings.HasPrefix(msg, "invalid value for SETTINGS_ENABLE_CONNECT_PROTOCOL"):
		return VerifH3SErrSettingsBool, settingExtendedConnect
	case strings.HasPrefix(msg, "invalid value for SETTINGS_H3_DATAGRAM"):
		return VerifH3SErrSettingsBool, settingDatagram
	case msg == "GOAWAY frame: inconsistent length":
		return VerifH3SErrGoawayLen, 0
	}
	return VerifH3SErrOther, 0
}

func scan(s, format string, n *int64) bool {
	var u uint64
	if _, err := fmt.Sscanf(s, format, &u); err != nil {
		return false
	}
	*n = int64(u)
	return true
}

// VerifH3SFrame: one result of frameParser.ParseNext.
type VerifH3SFrame struct {
	Kind                      int64 // 0 DATA, 1 HEADERS, 4 SETTINGS, 7 GOAWAY, -1 error
	Length                    uint64
	HeaderLen                 int64
	MaxFieldSectionSize       int64
	Datagram, ExtendedConnect bool
	Other                     [][2]uint64 // sorted by id
	GoAwayID                  int64
	ErrCls, ErrArg            int64
}

// VerifH3SParse runs ParseNext up to nmax times on one frameParser wired like the control
// stream's (closeConn = quic.Conn.CloseWithError).  After a DATA / HEADERS result the payload
// (as far as present) is removed from the script directly, as a consumer would.
func VerifH3SParse(s *VerifH3SScript, nmax int) (res []VerifH3SFrame, closeCode uint64, closed bool) {
	qc := quic.VerifH3SStubConn()
	fp := &frameParser{closeConn: qc.CloseWithError, r: s, streamID: s.StreamID()}
	for i := 0; i < nmax; i++ {
		f, err := fp.ParseNext(nil)
		if err != nil {
			c, a := VerifH3SErrClass(err)
			res = append(res, VerifH3SFrame{Kind: -1, ErrCls: c, ErrArg: a})
			break
		}
		switch f := f.(type) {
		case *dataFrame:
			res = append(res, VerifH3SFrame{Kind: 0, Length: f.Length})
			s.Data = s.Data[min(uint64(len(s.Data)), f.Length):]
		case *headersFrame:
			res = append(res, VerifH3SFrame{Kind: 1, Length: f.Length, HeaderLen: int64(f.headerLen)})
			s.Data = s.Data[min(uint64(len(s.Data)), f.Length):]
		case *settingsFrame:
			r := VerifH3SFrame{Kind: 4, MaxFieldSectionSize: f.MaxFieldSectionSize, Datagram: f.Datagram, ExtendedConnect: f.ExtendedConnect}
			for k, v := range f.Other {
				r.Other = append(r.Other, [2]uint64{k, v})
			}
			sort.Slice(r.Other, func(i, j int) bool { return r.Other[i][0] < r.Other[j][0] })
			res = append(res, r)
		case *goAwayFrame:
			res = append(res, VerifH3SFrame{Kind: 7, GoAwayID: int64(f.StreamID)})
		default:
			res = append(res, VerifH3SFrame{Kind: -1, ErrCls: VerifH3SErrOther})
		}
	}
	closeCode, _, closed = quic.VerifH3SStubConnClosed(qc)
	return
}

// VerifH3SRig: a real Stream (built by newStream, wired to a stub quic.Conn through a real
// rawConn) and optionally a real body on top of it, over a script.
type VerifH3SRig struct {
	Script   *VerifH3SScript
	Trailers [][]byte // header blocks handed to the trailer callback
	qc       *quic.Conn
	str      *Stream
	rd       io.Reader
	reqDone  chan struct{}
}

// mode: -2 = read through Stream.Read directly; -1 = body without Content-Length;
// >= 0 = body with that Content-Length.  bodyKind: 0 requestBody (server side), 1 response
// body (client side).  The trailer callback does what decodeTrailers does before QPACK:
// size check against maxHdr, io.ReadFull of the block.
func VerifH3SNewRig(s *VerifH3SScript, mode int64, bodyKind int, noContent bool, maxHdr uint64) *VerifH3SRig {
	r := &VerifH3SRig{Script: s, qc: quic.VerifH3SStubConn()}
	rc := newRawConn(r.qc, false, nil, nil, nil, nil)
	r.str = newStream(s, rc, nil, func(rd io.Reader, hf *headersFrame) error {
		if hf.Length > maxHdr {
			return verifH3STrailerTooLarge
		}
		b := make([]byte, hf.Length)
		if _, err := io.ReadFull(rd, b); err != nil {
			return err
		}
		r.Trailers = append(r.Trailers, b)
		return nil
	}, nil)
	switch {
	case mode == -2:
		r.rd = r.str
	case bodyKind == 0:
		rb := newRequestBody(r.str, mode, context.Background(), nil, nil)
		verifH3SSetNoContent(&rb.body, noContent)
		r.rd = rb
	default:
		r.reqDone = make(chan struct{})
		rb := newResponseBody(r.str, mode, r.reqDone)
		verifH3SSetNoContent(&rb.body, noContent)
		r.rd = rb
	}
	return r
}

// verifH3SSetNoContent marks the body as one of a message that never carries content (response to
// HEAD, 1xx / 204 / 304), as RequestStream.ReadResponse does.  Reflection keeps the harness
// compiling against a tree that does not have the field (the unrepaired code).
func verifH3SSetNoContent(b *body, v bool) {
	if !v {
		return
	}
	f := reflect.ValueOf(b).Elem().FieldByName("noContentExpected")
	if f.IsValid() {
		reflect.NewAt(f.Type(), f.Addr().UnsafePointer()).Elem().SetBool(true)
	}
}

func (r *VerifH3SRig) Read(n int) ([]byte, int64, int64) {
	b := make([]byte, n)
	m, err := r.rd.Read(b)
	c, a := VerifH3SErrClass(err)
	if m < 0 || m > n {
		return nil, VerifH3SErrOther, int64(m)
	}
	return b[:m], c, a
}

func (r *VerifH3SRig) Write(b []byte) (int, int64, int64) {
	n, err := r.str.Write(b)
	c, a := VerifH3SErrClass(err)
	return n, c, a
}

func (r *VerifH3SRig) ConnClosed() (uint64, bool) {
	c, _, ok := quic.VerifH3SStubConnClosed(r.qc)
	return c, ok
}

// ReqDone: (has a done channel, it is closed).
func (r *VerifH3SRig) ReqDone() (bool, bool) {
	if r.reqDone == nil {
		return false, false
	}
	select {
	case <-r.reqDone:
		return true, true
	default:
		return true, false
	}
}

func (r *VerifH3SRig) BytesRemainingInFrame() uint64 { return r.str.bytesRemainingInFrame }
