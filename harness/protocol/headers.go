//go:build verif

package protocol

import mrand "math/rand/v2"

// VerifReseedVersionGrease makes GetGreasedVersions deterministic: the package seeds its
// PCG from crypto/rand in init(), before the harness can script crypto/rand.Reader.
// The position and the reserved version stay oracle inputs of the model; this only makes
// the same VERIF_SEED produce the same cases.
func VerifReseedVersionGrease(s1, s2 uint64) {
	versionNegotiationMx.Lock()
	defer versionNegotiationMx.Unlock()
	versionNegotiationRand = *mrand.New(mrand.NewPCG(s1, s2))
}
