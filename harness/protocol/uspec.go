//go:build verif

package protocol

// C11 (uspec): the bound ParseConnectionID panics above.
func VerifUSpecConsts() [][2]any {
	return [][2]any{
		{"uspec_maxConnectionIDLen", int64(maxConnectionIDLen)},
		// the defaults PopulateFromUQUIC starts the connection's record with
		{"uspec_DefaultMaxAckDelayNs", int64(DefaultMaxAckDelay)},
		{"uspec_DefaultActiveConnectionIDLimit", int64(DefaultActiveConnectionIDLimit)},
		{"uspec_DefaultAckDelayExponent", int64(DefaultAckDelayExponent)},
		{"uspec_InvalidByteCount", int64(InvalidByteCount)},
		{"uspec_MaxByteCount", int64(MaxByteCount)},
	}
}
