//go:build verif

package protocol

// C11 (uspec): the bound ParseConnectionID panics above.
func VerifUSpecConsts() [][2]any {
	return [][2]any{{"uspec_maxConnectionIDLen", int64(maxConnectionIDLen)}}
}
