//go:build verif

package ackhandler

import (
	"time"

	"github.com/refraction-networking/uquic/internal/monotime"
	"github.com/refraction-networking/uquic/internal/protocol"
	"github.com/refraction-networking/uquic/internal/utils"
	"github.com/refraction-networking/uquic/internal/wire"
)

// Verification harness for property C20 at the ackhandler level: the real sentPacketHandler
// (with its real Reno congestion controller), SendMode and the decision inputs it reads.
// Add-only: calls the exported constructor, exported methods, and reads unexported fields.

type VerifC20SPH struct {
	h   *sentPacketHandler
	Rtt *utils.RTTStats
}

type verifC20NopHandler struct{}

func (verifC20NopHandler) OnAcked(wire.Frame) {}
func (verifC20NopHandler) OnLost(wire.Frame)  {}

// VerifC20Consts: constants of the send-gating decision.
func VerifC20Consts() [][2]any {
	return [][2]any{
		{"sm_maxTrackedSentPackets", int64(protocol.MaxTrackedSentPackets)},
		{"sm_maxOutstandingSentPackets", int64(protocol.MaxOutstandingSentPackets)},
		{"sm_amplificationFactor", int64(amplificationFactor)},
		{"sm_SendNone", int64(SendNone)}, {"sm_SendAck", int64(SendAck)}, {"sm_SendPTOInitial", int64(SendPTOInitial)},
		{"sm_SendPTOHandshake", int64(SendPTOHandshake)}, {"sm_SendPTOAppData", int64(SendPTOAppData)},
		{"sm_SendPacingLimited", int64(SendPacingLimited)}, {"sm_SendAny", int64(SendAny)},
	}
}

func VerifC20NewSPH(mds int64, server bool, clientAddressValidated bool) *VerifC20SPH {
	rtt := utils.NewRTTStats()
	pers := protocol.PerspectiveClient
	if server {
		pers = protocol.PerspectiveServer
	}
	h := NewSentPacketHandler(0, protocol.ByteCount(mds), rtt, &utils.ConnectionStats{}, clientAddressValidated, false,
		func(protocol.PacketNumber) {}, pers, nil, utils.DefaultLogger)
	return &VerifC20SPH{h: h.(*sentPacketHandler), Rtt: rtt}
}

func verifC20Enc(e int) protocol.EncryptionLevel {
	switch e {
	case 0:
		return protocol.EncryptionInitial
	case 1:
		return protocol.EncryptionHandshake
	default:
		return protocol.Encryption1RTT
	}
}

// Sent hands one packet to the handler, as the connection does after packing it.
func (v *VerifC20SPH) Sent(t, pn int64, enc int, size int64, ackEliciting bool) {
	var frames []Frame
	if ackEliciting {
		frames = []Frame{{Frame: &wire.PingFrame{}, Handler: verifC20NopHandler{}}}
	}
	v.h.SentPacket(monotime.Time(t), protocol.PacketNumber(pn), protocol.InvalidPacketNumber, nil, frames, verifC20Enc(enc),
		protocol.ECNNon, protocol.ByteCount(size), false, false)
}

// Ack: ranges are (smallest, largest), highest range first (as wire.AckFrame wants them).
func (v *VerifC20SPH) Ack(t int64, enc int, ranges [][2]int64, delayNs int64) error {
	ack := &wire.AckFrame{DelayTime: time.Duration(delayNs)}
	for _, r := range ranges {
		ack.AckRanges = append(ack.AckRanges, wire.AckRange{Smallest: protocol.PacketNumber(r[0]), Largest: protocol.PacketNumber(r[1])})
	}
	_, err := v.h.ReceivedAck(ack, verifC20Enc(enc), monotime.Time(t))
	return err
}

func (v *VerifC20SPH) PopPN(enc int) int64 { return int64(v.h.PopPacketNumber(verifC20Enc(enc))) }
func (v *VerifC20SPH) ReceivedBytes(n, t int64) {
	v.h.ReceivedBytes(protocol.ByteCount(n), monotime.Time(t))
}
func (v *VerifC20SPH) ReceivedPacket(enc int, t int64) {
	v.h.ReceivedPacket(verifC20Enc(enc), monotime.Time(t))
}
func (v *VerifC20SPH) DropPackets(enc int, t int64) {
	v.h.DropPackets(verifC20Enc(enc), monotime.Time(t))
}
func (v *VerifC20SPH) LossTimeout() int64 { return int64(v.h.GetLossDetectionTimeout()) }
func (v *VerifC20SPH) OnLossTimeout(t int64) error {
	return v.h.OnLossDetectionTimeout(monotime.Time(t))
}
func (v *VerifC20SPH) SetMaxDatagramSize(s int64) { v.h.SetMaxDatagramSize(protocol.ByteCount(s)) }
func (v *VerifC20SPH) SendMode(t int64) int       { return int(v.h.SendMode(monotime.Time(t))) }
func (v *VerifC20SPH) Cwnd() int64                { return int64(v.h.congestion.GetCongestionWindow()) }
func (v *VerifC20SPH) BytesInFlight() int64       { return int64(v.h.bytesInFlight) }

// VerifC20Gate: every input SendMode reads, taken from the handler's own state at time t.
type VerifC20Gate struct {
	Tracked               int
	AmpLimited            bool
	NumProbes             int
	PtoMode               int
	BytesInFlight, Cwnd   int64
	HasPacingBudget       bool
	BytesSent, BytesRecvd int64
	PeerAddressValidated  bool
}

func (v *VerifC20SPH) Gate(t int64) VerifC20Gate {
	h := v.h
	n := h.appDataPackets.history.Len()
	if h.initialPackets != nil {
		n += h.initialPackets.history.Len()
	}
	if h.handshakePackets != nil {
		n += h.handshakePackets.history.Len()
	}
	return VerifC20Gate{
		Tracked: n, AmpLimited: h.isAmplificationLimited(), NumProbes: h.numProbesToSend, PtoMode: int(h.ptoMode),
		BytesInFlight: int64(h.bytesInFlight), Cwnd: int64(h.congestion.GetCongestionWindow()),
		HasPacingBudget: h.congestion.HasPacingBudget(monotime.Time(t)),
		BytesSent:       int64(h.bytesSent), BytesRecvd: int64(h.bytesReceived), PeerAddressValidated: h.peerAddressValidated,
	}
}
