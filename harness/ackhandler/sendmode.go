//go:build verif

package ackhandler

import (
	"time"

	"github.com/refraction-networking/uquic/internal/congestion"
	"github.com/refraction-networking/uquic/internal/monotime"
	"github.com/refraction-networking/uquic/internal/protocol"
	"github.com/refraction-networking/uquic/internal/utils"
	vu "github.com/refraction-networking/uquic/internal/verifutil"
	"github.com/refraction-networking/uquic/internal/wire"
)

// Verification harness for property C20 at the ackhandler level: the real sentPacketHandler
// (with its real Reno congestion controller), SendMode and the decision inputs it reads.
// Add-only: calls the exported constructor, exported methods, and reads unexported fields.

type VerifC20SPH struct {
	h   *sentPacketHandler
	Rtt *utils.RTTStats
	Spy *VerifC20Spy
}

// VerifC20Spy sits between the handler and its real congestion controller and records every call
// the handler makes on it — in the handler's own order and with the handler's own arguments — as
// (op, observation) pairs of coq/Congestion/Run.v, so that the Gallina sender model is replayed
// on exactly the call sequences sentPacketHandler issues. It forwards everything unchanged.
type VerifC20Spy struct {
	inner congestion.SendAlgorithmWithDebugInfos
	rtt   *utils.RTTStats
	Steps []string       // "(op, Ob ...)" terms
	Calls map[string]int // call counts by method
	Limit int            // stop recording after this many steps (the prefix stays replayable)
	Mds0  int64
}

func (s *VerifC20Spy) rec(kind, op string, ret int64) {
	s.Calls[kind]++
	if len(s.Steps) >= s.Limit {
		return
	}
	st, ok := congestion.VerifStateOf(s.inner)
	if !ok {
		return
	}
	s.Steps = append(s.Steps, vu.Pair(op, congestion.VerifObStr(ret, false, st)))
}
func verifC20b2i(b bool) int64 {
	if b {
		return 1
	}
	return 0
}
func (s *VerifC20Spy) srtt() string { return vu.Z(int64(s.rtt.SmoothedRTT())) }

func (s *VerifC20Spy) TimeUntilSend(bif protocol.ByteCount) monotime.Time {
	srtt := s.srtt()
	t := s.inner.TimeUntilSend(bif)
	s.rec("TimeUntilSend", vu.App("QTimeUntil", srtt), int64(t))
	return t
}
func (s *VerifC20Spy) HasPacingBudget(now monotime.Time) bool {
	srtt := s.srtt()
	b := s.inner.HasPacingBudget(now)
	s.rec("HasPacingBudget", vu.App("QBudget", vu.Z(int64(now)), srtt), verifC20b2i(b))
	return b
}
func (s *VerifC20Spy) OnPacketSent(t monotime.Time, bif protocol.ByteCount, pn protocol.PacketNumber, bytes protocol.ByteCount, retrans bool) {
	srtt := s.srtt()
	s.inner.OnPacketSent(t, bif, pn, bytes, retrans)
	s.rec("OnPacketSent", vu.App("Sent", vu.Z(int64(t)), vu.Z(int64(pn)), vu.Z(int64(bytes)), vu.B(retrans), srtt), 0)
}
func (s *VerifC20Spy) CanSend(bif protocol.ByteCount) bool {
	b := s.inner.CanSend(bif)
	s.rec("CanSend", vu.App("QCanSend", vu.Z(int64(bif))), verifC20b2i(b))
	return b
}
func (s *VerifC20Spy) MaybeExitSlowStart() {
	lat, mn := vu.Z(int64(s.rtt.LatestRTT())), vu.Z(int64(s.rtt.MinRTT()))
	s.inner.MaybeExitSlowStart()
	s.rec("MaybeExitSlowStart", vu.App("ExitSS", lat, mn), 0)
}
func (s *VerifC20Spy) OnPacketAcked(pn protocol.PacketNumber, bytes, prior protocol.ByteCount, t monotime.Time) {
	s.inner.OnPacketAcked(pn, bytes, prior, t)
	s.rec("OnPacketAcked", vu.App("Acked", vu.Z(int64(pn)), vu.Z(int64(bytes)), vu.Z(int64(prior)), vu.Z(int64(t)), "0"), 0)
}
func (s *VerifC20Spy) OnCongestionEvent(pn protocol.PacketNumber, lost, prior protocol.ByteCount) {
	s.inner.OnCongestionEvent(pn, lost, prior)
	s.rec("OnCongestionEvent", vu.App("Lost", vu.Z(int64(pn)), vu.Z(int64(lost)), vu.Z(int64(prior)), "0"), 0)
}
func (s *VerifC20Spy) OnRetransmissionTimeout(b bool) {
	s.inner.OnRetransmissionTimeout(b)
	s.rec("OnRetransmissionTimeout", vu.App("RTO", vu.B(b)), 0)
}
func (s *VerifC20Spy) SetMaxDatagramSize(m protocol.ByteCount) {
	s.inner.SetMaxDatagramSize(m)
	s.rec("SetMaxDatagramSize", vu.App("SetMDS", vu.Z(int64(m))), 0)
}
func (s *VerifC20Spy) InSlowStart() bool {
	b := s.inner.InSlowStart()
	s.rec("InSlowStart", "QInSlowStart", verifC20b2i(b))
	return b
}
func (s *VerifC20Spy) InRecovery() bool {
	b := s.inner.InRecovery()
	s.rec("InRecovery", "QInRecovery", verifC20b2i(b))
	return b
}
func (s *VerifC20Spy) GetCongestionWindow() protocol.ByteCount { return s.inner.GetCongestionWindow() }

type verifC20NopHandler struct{}

func (verifC20NopHandler) OnAcked(wire.Frame) {}
func (verifC20NopHandler) OnLost(wire.Frame)  {}

// VerifC20Consts: constants of the send-gating decision.
func VerifC20Consts() [][2]any {
	return [][2]any{
		{"sm_maxTrackedSentPackets", int64(protocol.MaxTrackedSentPackets)},
		{"sm_maxOutstandingSentPackets", int64(protocol.MaxOutstandingSentPackets)},
		{"sm_amplificationFactor", int64(amplificationFactor)},
		{"sm_SendNone", int64(SendNone)}, {"sm_SendAck", int64(SendAck)}, {"sm_SendPTOInitial", int64(SendPTOInitial)},
		{"sm_SendPTOHandshake", int64(SendPTOHandshake)}, {"sm_SendPTOAppData", int64(SendPTOAppData)},
		{"sm_SendPacingLimited", int64(SendPacingLimited)}, {"sm_SendAny", int64(SendAny)},
	}
}

func VerifC20NewSPH(mds int64, server bool, clientAddressValidated bool) *VerifC20SPH {
	rtt := utils.NewRTTStats()
	pers := protocol.PerspectiveClient
	if server {
		pers = protocol.PerspectiveServer
	}
	h := NewSentPacketHandler(0, protocol.ByteCount(mds), rtt, &utils.ConnectionStats{}, clientAddressValidated, false,
		func(protocol.PacketNumber) {}, pers, nil, utils.DefaultLogger)
	v := &VerifC20SPH{h: h.(*sentPacketHandler), Rtt: rtt}
	v.Spy = &VerifC20Spy{inner: v.h.congestion, rtt: rtt, Calls: map[string]int{}, Limit: 120, Mds0: mds}
	v.h.congestion = v.Spy
	return v
}

func verifC20Enc(e int) protocol.EncryptionLevel {
	switch e {
	case 0:
		return protocol.EncryptionInitial
	case 1:
		return protocol.EncryptionHandshake
	default:
		return protocol.Encryption1RTT
	}
}

// Sent hands one packet to the handler, as the connection does after packing it.
func (v *VerifC20SPH) Sent(t, pn int64, enc int, size int64, ackEliciting bool) {
	var frames []Frame
	if ackEliciting {
		frames = []Frame{{Frame: &wire.PingFrame{}, Handler: verifC20NopHandler{}}}
	}
	v.h.SentPacket(monotime.Time(t), protocol.PacketNumber(pn), protocol.InvalidPacketNumber, nil, frames, verifC20Enc(enc),
		protocol.ECNNon, protocol.ByteCount(size), false, false)
}

// Ack: ranges are (smallest, largest), highest range first (as wire.AckFrame wants them).
func (v *VerifC20SPH) Ack(t int64, enc int, ranges [][2]int64, delayNs int64) error {
	ack := &wire.AckFrame{DelayTime: time.Duration(delayNs)}
	for _, r := range ranges {
		ack.AckRanges = append(ack.AckRanges, wire.AckRange{Smallest: protocol.PacketNumber(r[0]), Largest: protocol.PacketNumber(r[1])})
	}
	_, err := v.h.ReceivedAck(ack, verifC20Enc(enc), monotime.Time(t))
	return err
}

func (v *VerifC20SPH) PopPN(enc int) int64 { return int64(v.h.PopPacketNumber(verifC20Enc(enc))) }
func (v *VerifC20SPH) ReceivedBytes(n, t int64) {
	v.h.ReceivedBytes(protocol.ByteCount(n), monotime.Time(t))
}
func (v *VerifC20SPH) ReceivedPacket(enc int, t int64) {
	v.h.ReceivedPacket(verifC20Enc(enc), monotime.Time(t))
}
func (v *VerifC20SPH) DropPackets(enc int, t int64) {
	v.h.DropPackets(verifC20Enc(enc), monotime.Time(t))
}
func (v *VerifC20SPH) LossTimeout() int64 { return int64(v.h.GetLossDetectionTimeout()) }
func (v *VerifC20SPH) OnLossTimeout(t int64) error {
	return v.h.OnLossDetectionTimeout(monotime.Time(t))
}
func (v *VerifC20SPH) SetMaxDatagramSize(s int64) { v.h.SetMaxDatagramSize(protocol.ByteCount(s)) }
func (v *VerifC20SPH) SendMode(t int64) int       { return int(v.h.SendMode(monotime.Time(t))) }
func (v *VerifC20SPH) Cwnd() int64                { return int64(v.h.congestion.GetCongestionWindow()) }
func (v *VerifC20SPH) TimeUntilSend() int64       { return int64(v.h.TimeUntilSend()) }
func (v *VerifC20SPH) BytesInFlight() int64       { return int64(v.h.bytesInFlight) }

// VerifC20Gate: every input SendMode reads, taken from the handler's own state at time t.
type VerifC20Gate struct {
	Tracked               int
	AmpLimited            bool
	NumProbes             int
	PtoMode               int
	BytesInFlight, Cwnd   int64
	HasPacingBudget       bool
	BytesSent, BytesRecvd int64
	PeerAddressValidated  bool
}

func (v *VerifC20SPH) Gate(t int64) VerifC20Gate {
	h := v.h
	n := h.appDataPackets.history.Len()
	if h.initialPackets != nil {
		n += h.initialPackets.history.Len()
	}
	if h.handshakePackets != nil {
		n += h.handshakePackets.history.Len()
	}
	return VerifC20Gate{
		Tracked: n, AmpLimited: h.isAmplificationLimited(), NumProbes: h.numProbesToSend, PtoMode: int(h.ptoMode),
		BytesInFlight: int64(h.bytesInFlight), Cwnd: int64(v.Spy.inner.GetCongestionWindow()),
		HasPacingBudget: v.Spy.inner.HasPacingBudget(monotime.Time(t)),
		BytesSent:       int64(h.bytesSent), BytesRecvd: int64(h.bytesReceived), PeerAddressValidated: h.peerAddressValidated,
	}
}
