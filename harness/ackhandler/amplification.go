//go:build verif

package ackhandler

import (
	"time"

	"github.com/refraction-networking/uquic/internal/monotime"
	"github.com/refraction-networking/uquic/internal/protocol"
	"github.com/refraction-networking/uquic/internal/utils"
	"github.com/refraction-networking/uquic/internal/wire"
)

// C14 (amplification slice of sentPacketHandler). Add-only: builds the real handler with
// the server perspective and reads the unexported fields that are the property's subject.

// VerifAmpConsts feeds the constants translator.
func VerifAmpConsts() [][2]any {
	return [][2]any{
		{"amplificationFactor", int64(amplificationFactor)},
		{"amp_maxPTODuration", int64(maxPTODuration)},
		{"amp_SendNone", int64(SendNone)},
		{"amp_SendAck", int64(SendAck)},
		{"amp_SendPTOInitial", int64(SendPTOInitial)},
		{"amp_SendPTOHandshake", int64(SendPTOHandshake)},
		{"amp_SendPTOAppData", int64(SendPTOAppData)},
		{"amp_SendPacingLimited", int64(SendPacingLimited)},
		{"amp_SendAny", int64(SendAny)},
		{"amp_EncInitial", int64(protocol.EncryptionInitial)},
		{"amp_EncHandshake", int64(protocol.EncryptionHandshake)},
		{"amp_Enc0RTT", int64(protocol.Encryption0RTT)},
		{"amp_Enc1RTT", int64(protocol.Encryption1RTT)},
	}
}

type verifNopHandler struct{}

func (verifNopHandler) OnAcked(wire.Frame) {}
func (verifNopHandler) OnLost(wire.Frame)  {}

// VerifAmp wraps a real sentPacketHandler (server perspective).
type VerifAmp struct {
	h   *sentPacketHandler
	rtt *utils.RTTStats
}

// VerifNewAmp: NewSentPacketHandler exactly as connection.go's server constructor calls it
// (initialPN 0, ECN off, no tracer), clientAddressValidated = validated.
func VerifNewAmp(validated bool, pers protocol.Perspective) *VerifAmp {
	rtt := utils.NewRTTStats()
	h := NewSentPacketHandler(0, protocol.InitialPacketSize, rtt, &utils.ConnectionStats{}, validated, false,
		func(protocol.PacketNumber) {}, pers, nil, utils.DefaultLogger)
	return &VerifAmp{h: h.(*sentPacketHandler), rtt: rtt}
}

// VerifWrapAmp wraps the sentPacketHandler a connection created for itself.
func VerifWrapAmp(h SentPacketHandler) *VerifAmp {
	sph := h.(*sentPacketHandler)
	return &VerifAmp{h: sph, rtt: sph.rttStats}
}

func (a *VerifAmp) Handler() SentPacketHandler { return a.h }

// Counters returns the three fields the amplification limit is computed from.
func (a *VerifAmp) Counters() (sent, rcvd int64, validated bool) {
	return int64(a.h.bytesSent), int64(a.h.bytesReceived), a.h.peerAddressValidated
}

// VerifTimerState is the part of the handler's state the loss-detection timer and the
// PTO branch of SendMode depend on (in histories without packet loss declarations).
type VerifTimerState struct {
	OutI, OutH, OutA       bool  // outstanding ack-eliciting packets per space
	LastAEI, LastAEH       int64 // lastAckElicitingPacketTime
	PTOCount, NumProbes    int64
	PTOMode                int64
	PTO0                   int64 // rttStats.PTO(false) in ns (float oracle)
	Alarm                  int64
	LossTimeSet            bool // any pnSpace.lossTime != 0 (outside the model's slice)
	HandshakeConfirmed     bool
	SpacesDropped          bool
	PeerCompletedAddrValid bool
}

func (a *VerifAmp) TimerState() VerifTimerState {
	h := a.h
	ts := VerifTimerState{
		PTOCount: int64(h.ptoCount), NumProbes: int64(h.numProbesToSend), PTOMode: int64(h.ptoMode),
		PTO0: int64(a.rtt.PTO(false)), Alarm: int64(h.alarm.Time), HandshakeConfirmed: h.handshakeConfirmed,
		PeerCompletedAddrValid: h.peerCompletedAddressValidation,
	}
	if h.initialPackets != nil {
		ts.OutI = h.initialPackets.history.HasOutstandingPackets()
		ts.LastAEI = int64(h.initialPackets.lastAckElicitingPacketTime)
		ts.LossTimeSet = ts.LossTimeSet || !h.initialPackets.lossTime.IsZero()
	} else {
		ts.SpacesDropped = true
	}
	if h.handshakePackets != nil {
		ts.OutH = h.handshakePackets.history.HasOutstandingPackets()
		ts.LastAEH = int64(h.handshakePackets.lastAckElicitingPacketTime)
		ts.LossTimeSet = ts.LossTimeSet || !h.handshakePackets.lossTime.IsZero()
	} else {
		ts.SpacesDropped = true
	}
	ts.OutA = h.appDataPackets.history.HasOutstandingPackets()
	ts.LossTimeSet = ts.LossTimeSet || !h.appDataPackets.lossTime.IsZero()
	return ts
}

// SendOne registers one packet the way connection.sendPackedCoalescedPacket does:
// PopPacketNumber (the packer), then SentPacket with the packet's full length.
func (a *VerifAmp) SendOne(t int64, lvl protocol.EncryptionLevel, size int64, ackEliciting bool) {
	pn := a.h.PopPacketNumber(lvl)
	var frames []Frame
	if ackEliciting {
		frames = []Frame{{Frame: &wire.PingFrame{}, Handler: verifNopHandler{}}}
	}
	a.h.SentPacket(monotime.Time(t), pn, protocol.InvalidPacketNumber, nil, frames, lvl, protocol.ECNNon, protocol.ByteCount(size), false, false)
}

// AckAll acknowledges every packet number sent so far in the space of lvl (one range
// starting at 0), so no packet is left below largestAcked and no loss time is armed.
// Returns false if nothing was sent yet in that space.
func (a *VerifAmp) AckAll(t int64, lvl protocol.EncryptionLevel) (bool, error) {
	sp := a.h.getPacketNumberSpace(lvl)
	if sp == nil || sp.largestSent == protocol.InvalidPacketNumber {
		return false, nil
	}
	ack := &wire.AckFrame{AckRanges: []wire.AckRange{{Smallest: 0, Largest: sp.largestSent}}, DelayTime: time.Millisecond}
	_, err := a.h.ReceivedAck(ack, lvl, monotime.Time(t))
	return true, err
}
