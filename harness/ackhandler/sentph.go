//go:build verif

package ackhandler

// Verification harness for the sentPacketHandler (unit sentph, property C06).
// Add-only: drives the real handler through its public API, replaces the congestion
// controller by a recording fake, and reads unexported fields for observation.

import (
	"errors"
	"fmt"
	"sort"
	"strings"
	"time"

	"github.com/refraction-networking/uquic/internal/monotime"
	"github.com/refraction-networking/uquic/internal/protocol"
	"github.com/refraction-networking/uquic/internal/qerr"
	"github.com/refraction-networking/uquic/internal/utils"
	"github.com/refraction-networking/uquic/internal/wire"
	"github.com/refraction-networking/uquic/qlog"
)

// VerifSentPHConsts: constants of the anchored files for coq/Gen/Params.v.
func VerifSentPHConsts() [][2]any {
	return [][2]any{
		{"sph_maxSkippedPackets", int64(maxSkippedPackets)},
		{"sph_packetThreshold", int64(packetThreshold)},
		{"sph_amplificationFactor", int64(amplificationFactor)},
		{"sph_maxPTODuration", int64(maxPTODuration)},
		{"sph_pathProbeLossTimeout", int64(pathProbePacketLossTimeout)},
		{"sph_lostTrackerMax", int64(VerifSentPHNew(true, false, 0, 0, 0).h.lostPackets.maxLength)},
		{"sph_EncInitial", int64(protocol.EncryptionInitial)},
		{"sph_EncHandshake", int64(protocol.EncryptionHandshake)},
		{"sph_Enc0RTT", int64(protocol.Encryption0RTT)},
		{"sph_Enc1RTT", int64(protocol.Encryption1RTT)},
		{"sph_TimerACK", int64(verifSentPHTimerType(qlog.TimerTypeACK))},
		{"sph_TimerPTO", int64(verifSentPHTimerType(qlog.TimerTypePTO))},
		{"sph_TimerPathProbe", int64(verifSentPHTimerType(qlog.TimerTypePathProbe))},
		{"sph_SendNone", int64(SendNone)},
		{"sph_SendAck", int64(SendAck)},
		{"sph_SendPTOInitial", int64(SendPTOInitial)},
		{"sph_SendPTOHandshake", int64(SendPTOHandshake)},
		{"sph_SendPTOAppData", int64(SendPTOAppData)},
		{"sph_SendPacingLimited", int64(SendPacingLimited)},
		{"sph_SendAny", int64(SendAny)},
		{"sph_MaxTrackedSentPackets", int64(protocol.MaxTrackedSentPackets)},
		{"sph_MaxOutstandingSentPackets", int64(protocol.MaxOutstandingSentPackets)},
		{"sph_SkipPacketInitialPeriod", int64(protocol.SkipPacketInitialPeriod)},
		{"sph_SkipPacketMaxPeriod", int64(protocol.SkipPacketMaxPeriod)},
	}
}

func verifSentPHTimerType(t qlog.TimerType) int {
	switch t {
	case "":
		return 0
	case qlog.TimerTypeACK:
		return 1
	case qlog.TimerTypePTO:
		return 2
	case qlog.TimerTypePathProbe:
		return 3
	}
	return 99
}

// VerifSentPHCb is one frame callback: Acked=true OnAcked, false OnLost.
type VerifSentPHCb struct {
	ID    int64
	Acked bool
}

type verifSentPHHandler struct {
	v     *VerifSentPH
	id    int64
	inner FrameHandler // the handler the connection registered (decorator mode), called after recording
}

func (f *verifSentPHHandler) OnAcked(fr wire.Frame) {
	f.v.cbs = append(f.v.cbs, VerifSentPHCb{f.id, true})
	if f.inner != nil {
		f.inner.OnAcked(fr)
	}
}

func (f *verifSentPHHandler) OnLost(fr wire.Frame) {
	f.v.cbs = append(f.v.cbs, VerifSentPHCb{f.id, false})
	if f.inner != nil {
		f.inner.OnLost(fr)
	}
}

// verifSentPHCC is the recording fake congestion controller.
type verifSentPHCC struct {
	v         *VerifSentPH
	canSend   bool
	hasBudget bool
}

func (c *verifSentPHCC) TimeUntilSend(protocol.ByteCount) monotime.Time { return 0 }
func (c *verifSentPHCC) HasPacingBudget(monotime.Time) bool             { return c.hasBudget }
func (c *verifSentPHCC) OnPacketSent(_ monotime.Time, bif protocol.ByteCount, pn protocol.PacketNumber, b protocol.ByteCount, r bool) {
	c.v.evs = append(c.v.evs, fmt.Sprintf("(ESent %s %s %s %v)", vz(int64(bif)), vz(int64(pn)), vz(int64(b)), r))
}
func (c *verifSentPHCC) CanSend(protocol.ByteCount) bool { return c.canSend }
func (c *verifSentPHCC) MaybeExitSlowStart()             { c.v.evs = append(c.v.evs, "EExitSS") }
func (c *verifSentPHCC) OnPacketAcked(n protocol.PacketNumber, b, prior protocol.ByteCount, _ monotime.Time) {
	c.v.evs = append(c.v.evs, fmt.Sprintf("(EAcked %s %s %s)", vz(int64(n)), vz(int64(b)), vz(int64(prior))))
}
func (c *verifSentPHCC) OnCongestionEvent(n protocol.PacketNumber, b, prior protocol.ByteCount) {
	c.v.evs = append(c.v.evs, fmt.Sprintf("(ECong %s %s %s)", vz(int64(n)), vz(int64(b)), vz(int64(prior))))
}
func (c *verifSentPHCC) OnRetransmissionTimeout(bool)            {}
func (c *verifSentPHCC) SetMaxDatagramSize(protocol.ByteCount)   {}
func (c *verifSentPHCC) InSlowStart() bool                       { return false }
func (c *verifSentPHCC) InRecovery() bool                        { return false }
func (c *verifSentPHCC) GetCongestionWindow() protocol.ByteCount { return 1 << 20 }

func vz(n int64) string {
	if n < 0 {
		return fmt.Sprintf("(%d)", n)
	}
	return fmt.Sprintf("%d", n)
}

// VerifSentPH wraps one real sentPacketHandler.
type VerifSentPH struct {
	h   *sentPacketHandler
	rtt *utils.RTTStats
	cc  *verifSentPHCC
	cbs []VerifSentPHCb
	evs []string
	// Rnd0 is the draw the initial skipping generator made (oracle of the model's init).
	Rnd0 int64
}

// VerifSentPHNew builds a handler through NewSentPacketHandler. If period > 0 the application-data
// packet number generator is re-created by the real constructor with a shorter period, so that
// generator skips happen within short histories.
func VerifSentPHNew(client, addrValidated bool, initialPN, period, maxPeriod int64) *VerifSentPH {
	v := &VerifSentPH{rtt: utils.NewRTTStats()}
	v.rtt.SetMaxAckDelay(25 * time.Millisecond)
	pers := protocol.PerspectiveServer
	if client {
		pers = protocol.PerspectiveClient
	}
	sph := NewSentPacketHandler(protocol.PacketNumber(initialPN), 1200, v.rtt, &utils.ConnectionStats{}, addrValidated, false,
		func(pn protocol.PacketNumber) { v.evs = append(v.evs, fmt.Sprintf("(EIgnoreBelow %s)", vz(int64(pn)))) },
		pers, nil, utils.DefaultLogger)
	v.h = sph.(*sentPacketHandler)
	v.cc = &verifSentPHCC{v: v, canSend: true, hasBudget: true}
	v.h.congestion = v.cc
	if period > 0 {
		v.h.appDataPackets.pns = newSkippingPacketNumberGenerator(0, protocol.PacketNumber(period), protocol.PacketNumber(maxPeriod))
	}
	g := v.h.appDataPackets.pns.(*skippingPacketNumberGenerator)
	v.Rnd0 = int64(g.nextToSkip - g.next - 3)
	return v
}

// VerifSentPHInitialPeriod: the (period, maxPeriod) of the generator as constructed.
func (v *VerifSentPH) lvl(l int64) protocol.EncryptionLevel { return protocol.EncryptionLevel(l) }

// SpaceLive: the packet number space of that level still exists.
func (v *VerifSentPH) SpaceLive(l int64) bool {
	switch protocol.EncryptionLevel(l) {
	case protocol.EncryptionInitial:
		return v.h.initialPackets != nil
	case protocol.EncryptionHandshake:
		return v.h.handshakePackets != nil
	case protocol.Encryption0RTT, protocol.Encryption1RTT:
		return true
	}
	return false
}

func (v *VerifSentPH) IsClient() bool { return v.h.perspective == protocol.PerspectiveClient }

// HandshakeUntouched: Handshake space exists and nothing was sent in it (precondition of a Retry).
func (v *VerifSentPH) HandshakeUntouched() bool {
	s := v.h.handshakePackets
	return s != nil && s.largestSent == protocol.InvalidPacketNumber && len(s.history.packets) == 0
}

// AppProbesOutstanding: path probe packets are tracked in the application-data space.
func (v *VerifSentPH) AppProbesOutstanding() bool {
	return len(v.h.appDataPackets.history.pathProbePackets) > 0
}

func (v *VerifSentPH) appGenState() (next, nextToSkip int64) {
	g := v.h.appDataPackets.pns.(*skippingPacketNumberGenerator)
	return int64(g.next), int64(g.nextToSkip)
}

func (v *VerifSentPH) rndSince(oldToSkip int64) int64 {
	next, toSkip := v.appGenState()
	if toSkip == oldToSkip {
		return 0
	}
	return toSkip - next - 3
}

func (v *VerifSentPH) mkFrames(fs, sfs []int64) ([]Frame, []StreamFrame) {
	var frames []Frame
	var sframes []StreamFrame
	for _, id := range fs {
		f := Frame{Frame: &wire.MaxStreamDataFrame{StreamID: protocol.StreamID(id)}}
		if id >= 0 {
			f.Handler = &verifSentPHHandler{v: v, id: id}
		}
		frames = append(frames, f)
	}
	for _, id := range sfs {
		f := StreamFrame{Frame: &wire.StreamFrame{StreamID: protocol.StreamID(id)}}
		if id >= 0 {
			f.Handler = &verifSentPHHandler{v: v, id: id}
		}
		sframes = append(sframes, f)
	}
	return frames, sframes
}

// Send = PopPacketNumber + SentPacket, as the connection does for every packed packet.
func (v *VerifSentPH) Send(l, t, la int64, sfs, fs []int64, size int64, mtu, probe bool) (pn, rnd int64) {
	_, old := v.appGenState()
	p := v.h.PopPacketNumber(v.lvl(l))
	frames, sframes := v.mkFrames(fs, sfs)
	v.h.SentPacket(monotime.Time(t), p, protocol.PacketNumber(la), sframes, frames, v.lvl(l), protocol.ECNNon, protocol.ByteCount(size), mtu, probe)
	return int64(p), v.rndSince(old)
}

// Ack returns the model's result code: 10 = acked a 1-RTT packet; 0 nil; 1 unsent; 2 skipped; 9 any other error.
func (v *VerifSentPH) Ack(l, now, delay int64, ranges [][2]int64) int64 {
	ack := &wire.AckFrame{DelayTime: time.Duration(delay)}
	for _, r := range ranges {
		ack.AckRanges = append(ack.AckRanges, wire.AckRange{Smallest: protocol.PacketNumber(r[0]), Largest: protocol.PacketNumber(r[1])})
	}
	a1, err := v.h.ReceivedAck(ack, v.lvl(l), monotime.Time(now))
	if err != nil {
		var te *qerr.TransportError
		if errors.As(err, &te) && te.ErrorCode == qerr.ProtocolViolation {
			if strings.Contains(te.ErrorMessage, "unsent") {
				return 1
			}
			if strings.Contains(te.ErrorMessage, "skipped") {
				return 2
			}
		}
		return 9
	}
	if a1 {
		return 10
	}
	return 0
}

// IsProtocolViolation reports whether code (from Ack) was a PROTOCOL_VIOLATION.
func VerifSentPHIsPV(code int64) bool { return code == 1 || code == 2 }

func (v *VerifSentPH) Timeout(now int64) (code, rnd int64) {
	_, old := v.appGenState()
	err := v.h.OnLossDetectionTimeout(monotime.Time(now))
	if err != nil {
		if strings.Contains(err.Error(), "bytes_in_flight is 0") {
			code = 3
		} else if strings.Contains(err.Error(), "unexpected encryption level") {
			code = 4
		} else {
			code = 9
		}
	}
	return code, v.rndSince(old)
}

func (v *VerifSentPH) Drop(l, now int64) { v.h.DropPackets(v.lvl(l), monotime.Time(now)) }

func (v *VerifSentPH) Retry(now int64) (rnd int64) {
	v.h.ResetForRetry(monotime.Time(now))
	next, toSkip := v.appGenState()
	return toSkip - next - 3
}

func (v *VerifSentPH) Migrate(now int64) {
	v.h.MigratedPath(monotime.Time(now), 1200)
	v.h.congestion = v.cc // MigratedPath installs a fresh cubic sender; keep recording
}
func (v *VerifSentPH) RecvBytes(n, now int64) {
	v.h.ReceivedBytes(protocol.ByteCount(n), monotime.Time(now))
}
func (v *VerifSentPH) RecvPacket(l, now int64) { v.h.ReceivedPacket(v.lvl(l), monotime.Time(now)) }
func (v *VerifSentPH) QueueProbe(l int64) bool { return v.h.QueueProbePacket(v.lvl(l)) }
func (v *VerifSentPH) SendMode(now int64, canSend, hasBudget bool) int64 {
	v.cc.canSend, v.cc.hasBudget = canSend, hasBudget
	return int64(v.h.SendMode(monotime.Time(now)))
}

// Oracle: the RTT-derived values the handler used in the op that just ran
// (loss delay of detectLostPackets, PTO without / with max_ack_delay).
func (v *VerifSentPH) Oracle() (lossDelay, pto0, pto1 int64) {
	maxRTT := float64(max(v.rtt.LatestRTT(), v.rtt.SmoothedRTT()))
	ld := time.Duration(timeThreshold * maxRTT)
	ld = max(ld, protocol.TimerGranularity)
	return int64(ld), int64(v.rtt.PTO(false)), int64(v.rtt.PTO(true))
}

// Drain returns and clears the callbacks and the event terms recorded since the last call.
func (v *VerifSentPH) Drain() ([]VerifSentPHCb, []string) {
	c, e := v.cbs, v.evs
	v.cbs, v.evs = nil, nil
	return c, e
}

// VerifSentPHObs: the per-op observables (state fields that are the property's subject).
type VerifSentPHObs struct {
	Bif                            int64
	NumOut                         [3]int64 // -1 = space dropped
	AlarmTime, AlarmType, AlarmLvl int64
	PtoCount, NumProbes, PtoMode   int64
	PCAV                           bool
}

func (v *VerifSentPH) spaces() [3]*packetNumberSpace {
	return [3]*packetNumberSpace{v.h.initialPackets, v.h.handshakePackets, v.h.appDataPackets}
}

func (v *VerifSentPH) Obs() VerifSentPHObs {
	o := VerifSentPHObs{Bif: int64(v.h.bytesInFlight), AlarmTime: int64(v.h.alarm.Time), AlarmType: int64(verifSentPHTimerType(v.h.alarm.TimerType)),
		AlarmLvl: int64(v.h.alarm.EncryptionLevel), PtoCount: int64(v.h.ptoCount), NumProbes: int64(v.h.numProbesToSend), PtoMode: int64(v.h.ptoMode),
		PCAV: v.h.peerCompletedAddressValidation}
	for i, s := range v.spaces() {
		if s == nil {
			o.NumOut[i] = -1
		} else {
			o.NumOut[i] = int64(s.history.numOutstanding)
		}
	}
	return o
}

func zl(xs []int64) string {
	s := make([]string, len(xs))
	for i, x := range xs {
		s[i] = vz(x)
	}
	return "[" + strings.Join(s, "; ") + "]"
}

// Dump prints the hidden state as a Coq term of type Run.dump (compared with the model at the end of a case).
func (v *VerifSentPH) Dump() string {
	var sp []string
	for _, s := range v.spaces() {
		if s == nil {
			sp = append(sp, "None")
			continue
		}
		var pns, probes, skipped []int64
		for pn := range s.history.Packets() {
			pns = append(pns, int64(pn))
		}
		for pn := range s.history.PathProbes() {
			probes = append(probes, int64(pn))
		}
		for pn := range s.history.SkippedPackets() {
			skipped = append(skipped, int64(pn))
		}
		sp = append(sp, fmt.Sprintf("(Some (%s, %s, %s, %s, [%s; %s; %s; %s; %s; %s; %s; %s]))", zl(pns), zl(probes), zl(skipped),
			vz(int64(len(s.history.packets))),
			vz(int64(s.history.firstPacketNumber)), vz(int64(s.history.highestPacketNumber)), vz(int64(s.lossTime)), vz(int64(s.lastAckElicitingPacketTime)),
			vz(int64(s.largestAcked)), vz(int64(s.largestSent)), vz(int64(s.pns.Peek())), vz(int64(s.history.numOutstanding))))
	}
	var lost []string
	for pn, t := range v.h.lostPackets.All() {
		lost = append(lost, fmt.Sprintf("(%s, %s)", vz(int64(pn)), vz(int64(t))))
	}
	b := func(x bool) string {
		if x {
			return "true"
		}
		return "false"
	}
	return fmt.Sprintf("(%s, %s, %s, [%s], [%s; %s; %s], [%s; %s; %s])", sp[0], sp[1], sp[2], strings.Join(lost, "; "),
		vz(int64(v.h.largestAckedTime)), vz(int64(v.h.bytesReceived)), vz(int64(v.h.bytesSent)),
		b(v.h.peerAddressValidated), b(v.h.handshakeConfirmed), b(v.h.peerCompletedAddressValidation))
}

// ---- accessors for the model-independent monitors ----

// VerifSentPHTracked describes one packet still tracked by the handler.
type VerifSentPHTracked struct {
	Space     int // 0 Initial, 1 Handshake, 2 AppData
	PN        int64
	Length    int64
	Included  bool
	AckElicit bool
	Outstand  bool
	PathProbe bool
	FrameIDs  []int64 // ids of frames with a handler
	Level     int64
}

func verifSentPHFrameIDs(p *packet) []int64 {
	var ids []int64
	for _, f := range p.Frames {
		if h, ok := f.Handler.(*verifSentPHHandler); ok {
			ids = append(ids, h.id)
		}
	}
	for _, f := range p.StreamFrames {
		if h, ok := f.Handler.(*verifSentPHHandler); ok {
			ids = append(ids, h.id)
		}
	}
	return ids
}

// Tracked walks the handler's own data structures (packets slices and path probe lists).
func (v *VerifSentPH) Tracked() []VerifSentPHTracked {
	var out []VerifSentPHTracked
	for i, s := range v.spaces() {
		if s == nil {
			continue
		}
		for j, p := range s.history.packets {
			if p == nil {
				continue
			}
			out = append(out, VerifSentPHTracked{Space: i, PN: int64(s.history.firstPacketNumber) + int64(j), Length: int64(p.Length),
				Included: p.includedInBytesInFlight, AckElicit: p.IsAckEliciting(), Outstand: p.Outstanding(), PathProbe: p.isPathProbePacket, Level: int64(p.EncryptionLevel),
				FrameIDs: verifSentPHFrameIDs(p)})
		}
		for _, pp := range s.history.pathProbePackets {
			out = append(out, VerifSentPHTracked{Space: i, PN: int64(pp.PacketNumber), Length: int64(pp.packet.Length),
				Included: pp.packet.includedInBytesInFlight, AckElicit: pp.packet.IsAckEliciting(), Outstand: false, PathProbe: true,
				FrameIDs: verifSentPHFrameIDs(pp.packet)})
		}
	}
	sort.SliceStable(out, func(a, b int) bool { return out[a].Space < out[b].Space })
	return out
}

func (v *VerifSentPH) LargestSent(l int64) int64 {
	switch protocol.EncryptionLevel(l) {
	case protocol.EncryptionInitial:
		return int64(v.h.initialPackets.largestSent)
	case protocol.EncryptionHandshake:
		return int64(v.h.handshakePackets.largestSent)
	}
	return int64(v.h.appDataPackets.largestSent)
}

// AppHighest: highest packet number the application-data history has seen (sent or skipped).
func (v *VerifSentPH) AppHighest() int64 {
	return int64(v.h.appDataPackets.history.highestPacketNumber)
}

// AppLowestTracked: lowest packet number still in the application-data history's packets slice.
func (v *VerifSentPH) AppLowestTracked() (int64, bool) {
	h := &v.h.appDataPackets.history
	if len(h.packets) == 0 {
		return 0, false
	}
	return int64(h.firstPacketNumber), true
}

func (v *VerifSentPH) HandshakeConfirmed() bool { return v.h.handshakeConfirmed }

// AmplificationLimited recomputes the limit from the byte counters (not via isAmplificationLimited).
func (v *VerifSentPH) AmplificationLimited() bool {
	return !v.h.peerAddressValidated && v.h.bytesSent >= 3*v.h.bytesReceived
}
func (v *VerifSentPH) AlarmTime() int64 { return int64(v.h.alarm.Time) }
func (v *VerifSentPH) PeerCompletedAddressValidation() bool {
	return v.h.peerCompletedAddressValidation
}

// VerifSentPHWrap wraps a sent packet handler created elsewhere (e.g. by a connection) so that the harness can
// drive it and read the oracle values / generator draws the model needs. The congestion controller is left alone.
func VerifSentPHWrap(h SentPacketHandler) *VerifSentPH {
	v := &VerifSentPH{}
	switch x := h.(type) {
	case *sentPacketHandler:
		v.h = x
	case *uSentPacketHandler:
		v.h = x.sentPacketHandler
	default:
		return nil
	}
	v.rtt = v.h.rttStats
	v.cc = &verifSentPHCC{v: v, canSend: true, hasBudget: true}
	g := v.h.appDataPackets.pns.(*skippingPacketNumberGenerator)
	v.Rnd0 = int64(g.nextToSkip - g.next - 3)
	return v
}

// AppGenPendingSkip: the application-data generator will skip this number at the next Pop (Peek already steps over it).
func (v *VerifSentPH) AppGenPendingSkip() (int64, bool) {
	next, toSkip := v.appGenState()
	return next, next == toSkip
}

// AppSkipped: the skipped packet numbers the application-data history currently records.
func (v *VerifSentPH) AppSkipped() []int64 {
	var out []int64
	for pn := range v.h.appDataPackets.history.SkippedPackets() {
		out = append(out, int64(pn))
	}
	return out
}

// ---- decorator: sits between a connection and its sent packet handler (unit sendglue) ----

// VerifSentPHCall is one state-changing call the connection made on its sent packet handler.
type VerifSentPHCall struct {
	Kind       string // send ack timeout drop retry migrate recvbytes recvpacket queueprobe sendmode
	L, Now, LA int64
	SFs, Fs    []int64  // frame ids assigned by the decorator (negative: frame without handler)
	Kinds      []string // Go type of every frame, Frames first, then StreamFrames
	Size       int64
	MTU, Probe bool
	Rnd        int64
	Delay      int64
	Ranges     [][2]int64
	N          int64
	CS, HB     bool
	Ret        int64
	PN         int64
	Popped     bool // SentPacket was preceded by PopPacketNumber at that level returning PN
}

// VerifSentPHDeco implements SentPacketHandler by forwarding to the wrapped handler; every frame handler is
// wrapped by a recording proxy and every call is reported to OnCall (after it returned).
type VerifSentPHDeco struct {
	V         *VerifSentPH
	inner     SentPacketHandler
	OnCall    func(c *VerifSentPHCall)
	pending   map[protocol.EncryptionLevel][2]int64 // popped pn, rnd
	nextID    int64
	IDKind    map[int64]string
	IDLevel   map[int64]int64
	IDHandler map[int64]string // Go type of the handler the connection registered
}

var _ SentPacketHandler = &VerifSentPHDeco{}

// NewVerifSentPHDeco wraps h; the congestion controller is replaced by the recording fake (always can send, budget).
func NewVerifSentPHDeco(h SentPacketHandler) *VerifSentPHDeco {
	v := VerifSentPHWrap(h)
	if v == nil {
		return nil
	}
	v.h.congestion = v.cc
	return &VerifSentPHDeco{V: v, inner: h, pending: map[protocol.EncryptionLevel][2]int64{}, IDKind: map[int64]string{}, IDLevel: map[int64]int64{}, IDHandler: map[int64]string{}}
}

func (d *VerifSentPHDeco) call(c *VerifSentPHCall) {
	if d.OnCall != nil {
		d.OnCall(c)
	}
}

func (d *VerifSentPHDeco) SentPacket(t monotime.Time, pn, largestAcked protocol.PacketNumber, streamFrames []StreamFrame, frames []Frame,
	encLevel protocol.EncryptionLevel, ecn protocol.ECN, size protocol.ByteCount, isPathMTUProbePacket, isPathProbePacket bool,
) {
	c := &VerifSentPHCall{Kind: "send", L: int64(encLevel), Now: int64(t), LA: int64(largestAcked), Size: int64(size), MTU: isPathMTUProbePacket, Probe: isPathProbePacket, PN: int64(pn)}
	if p, ok := d.pending[encLevel]; ok && p[0] == int64(pn) {
		c.Popped, c.Rnd = true, p[1]
		delete(d.pending, encLevel)
	}
	var nf []Frame
	for _, f := range frames {
		id := d.nextID
		d.nextID++
		d.IDKind[id], d.IDLevel[id] = fmt.Sprintf("%T", f.Frame), int64(encLevel)
		c.Kinds = append(c.Kinds, fmt.Sprintf("%T", f.Frame))
		if f.Handler != nil {
			d.IDHandler[id] = fmt.Sprintf("%T", f.Handler)
			nf = append(nf, Frame{Frame: f.Frame, Handler: &verifSentPHHandler{v: d.V, id: id, inner: f.Handler}})
			c.Fs = append(c.Fs, id)
		} else {
			nf = append(nf, f)
			c.Fs = append(c.Fs, -1-id)
		}
	}
	var nsf []StreamFrame
	for _, f := range streamFrames {
		id := d.nextID
		d.nextID++
		d.IDKind[id], d.IDLevel[id] = "*wire.StreamFrame", int64(encLevel)
		c.Kinds = append(c.Kinds, "*wire.StreamFrame")
		if f.Handler != nil {
			d.IDHandler[id] = fmt.Sprintf("%T", f.Handler)
			nsf = append(nsf, StreamFrame{Frame: f.Frame, Handler: &verifSentPHHandler{v: d.V, id: id, inner: f.Handler}})
			c.SFs = append(c.SFs, id)
		} else {
			nsf = append(nsf, f)
			c.SFs = append(c.SFs, -1-id)
		}
	}
	d.inner.SentPacket(t, pn, largestAcked, nsf, nf, encLevel, ecn, size, isPathMTUProbePacket, isPathProbePacket)
	d.call(c)
}

func (d *VerifSentPHDeco) ReceivedAck(f *wire.AckFrame, encLevel protocol.EncryptionLevel, rcvTime monotime.Time) (bool, error) {
	c := &VerifSentPHCall{Kind: "ack", L: int64(encLevel), Now: int64(rcvTime), Delay: int64(f.DelayTime)}
	for _, r := range f.AckRanges {
		c.Ranges = append(c.Ranges, [2]int64{int64(r.Smallest), int64(r.Largest)})
	}
	a1, err := d.inner.ReceivedAck(f, encLevel, rcvTime)
	switch {
	case err != nil:
		c.Ret = 9
		var te *qerr.TransportError
		if errors.As(err, &te) && te.ErrorCode == qerr.ProtocolViolation {
			if strings.Contains(te.ErrorMessage, "unsent") {
				c.Ret = 1
			} else if strings.Contains(te.ErrorMessage, "skipped") {
				c.Ret = 2
			}
		}
	case a1:
		c.Ret = 10
	}
	d.call(c)
	return a1, err
}

func (d *VerifSentPHDeco) ReceivedPacket(l protocol.EncryptionLevel, t monotime.Time) {
	d.inner.ReceivedPacket(l, t)
	d.call(&VerifSentPHCall{Kind: "recvpacket", L: int64(l), Now: int64(t)})
}

func (d *VerifSentPHDeco) ReceivedBytes(n protocol.ByteCount, t monotime.Time) {
	d.inner.ReceivedBytes(n, t)
	d.call(&VerifSentPHCall{Kind: "recvbytes", N: int64(n), Now: int64(t)})
}

func (d *VerifSentPHDeco) DropPackets(l protocol.EncryptionLevel, t monotime.Time) {
	d.inner.DropPackets(l, t)
	d.call(&VerifSentPHCall{Kind: "drop", L: int64(l), Now: int64(t)})
}

func (d *VerifSentPHDeco) ResetForRetry(t monotime.Time) {
	d.inner.ResetForRetry(t)
	next, toSkip := d.V.appGenState()
	d.call(&VerifSentPHCall{Kind: "retry", Now: int64(t), Rnd: toSkip - next - 3})
}

func (d *VerifSentPHDeco) SendMode(now monotime.Time) SendMode {
	m := d.inner.SendMode(now)
	d.call(&VerifSentPHCall{Kind: "sendmode", Now: int64(now), CS: d.V.cc.canSend, HB: d.V.cc.hasBudget, Ret: int64(m)})
	return m
}
func (d *VerifSentPHDeco) TimeUntilSend() monotime.Time            { return d.inner.TimeUntilSend() }
func (d *VerifSentPHDeco) SetMaxDatagramSize(c protocol.ByteCount) { d.inner.SetMaxDatagramSize(c) }
func (d *VerifSentPHDeco) ECNMode(short bool) protocol.ECN         { return d.inner.ECNMode(short) }
func (d *VerifSentPHDeco) GetLossDetectionTimeout() monotime.Time {
	return d.inner.GetLossDetectionTimeout()
}
func (d *VerifSentPHDeco) PeekPacketNumber(l protocol.EncryptionLevel) (protocol.PacketNumber, protocol.PacketNumberLen) {
	return d.inner.PeekPacketNumber(l)
}

func (d *VerifSentPHDeco) QueueProbePacket(l protocol.EncryptionLevel) bool {
	b := d.inner.QueueProbePacket(l)
	c := &VerifSentPHCall{Kind: "queueprobe", L: int64(l)}
	if b {
		c.Ret = 1
	}
	d.call(c)
	return b
}

func (d *VerifSentPHDeco) PopPacketNumber(l protocol.EncryptionLevel) protocol.PacketNumber {
	_, old := d.V.appGenState()
	pn := d.inner.PopPacketNumber(l)
	d.pending[l] = [2]int64{int64(pn), d.V.rndSince(old)}
	return pn
}

func (d *VerifSentPHDeco) OnLossDetectionTimeout(now monotime.Time) error {
	_, old := d.V.appGenState()
	err := d.inner.OnLossDetectionTimeout(now)
	c := &VerifSentPHCall{Kind: "timeout", Now: int64(now), Rnd: d.V.rndSince(old)}
	if err != nil {
		c.Ret = 9
		if strings.Contains(err.Error(), "bytes_in_flight is 0") {
			c.Ret = 3
		} else if strings.Contains(err.Error(), "unexpected encryption level") {
			c.Ret = 4
		}
	}
	d.call(c)
	return err
}

func (d *VerifSentPHDeco) MigratedPath(now monotime.Time, size protocol.ByteCount) {
	d.inner.MigratedPath(now, size)
	d.V.h.congestion = d.V.cc
	d.call(&VerifSentPHCall{Kind: "migrate", Now: int64(now)})
}
