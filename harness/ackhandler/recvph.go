//go:build verif

package ackhandler

import (
	"github.com/refraction-networking/uquic/internal/protocol"
	"github.com/refraction-networking/uquic/internal/utils"
)

// Add-only observation wrappers for the RecvPH unit (property C07). They only call
// unexported constructors / methods and read unexported fields.

// VerifRecvPHConsts feeds the constants translator (coq/Gen/Params.v).
func VerifRecvPHConsts() [][2]any {
	return [][2]any{
		{"rph_MaxNumAckRanges", int64(protocol.MaxNumAckRanges)},
		{"rph_InvalidPacketNumber", int64(protocol.InvalidPacketNumber)},
		{"rph_packetsBeforeAck", int64(packetsBeforeAck)},
		{"rph_reorderingThreshold", int64(reorderingThreshold)},
		{"rph_MaxAckDelay", int64(protocol.MaxAckDelay)}, // nanoseconds
		{"rph_ECT0", int64(protocol.ECT0)},
		{"rph_ECT1", int64(protocol.ECT1)},
		{"rph_ECNCE", int64(protocol.ECNCE)},
		{"rph_EncInitial", int64(protocol.EncryptionInitial)},
		{"rph_EncHandshake", int64(protocol.EncryptionHandshake)},
		{"rph_Enc0RTT", int64(protocol.Encryption0RTT)},
		{"rph_Enc1RTT", int64(protocol.Encryption1RTT)},
	}
}

// ---- receivedPacketHistory alone ----

type VerifHist struct{ h *receivedPacketHistory }

func VerifNewHist() *VerifHist { return &VerifHist{h: newReceivedPacketHistory()} }

func (v *VerifHist) ReceivedPacket(p int64) bool {
	return v.h.ReceivedPacket(protocol.PacketNumber(p))
}
func (v *VerifHist) DeleteBelow(p int64) { v.h.DeleteBelow(protocol.PacketNumber(p)) }
func (v *VerifHist) IsPotentiallyDuplicate(p int64) bool {
	return v.h.IsPotentiallyDuplicate(protocol.PacketNumber(p))
}
func (v *VerifHist) HighestMissingUpTo(p int64) int64 {
	return int64(v.h.HighestMissingUpTo(protocol.PacketNumber(p)))
}
func (v *VerifHist) Ranges() [][2]int64 { return verifRanges(v.h) }
func (v *VerifHist) DeletedBelow() int64  { return int64(v.h.deletedBelow) }

// Backward returns what the Backward iterator yields (highest range first).
func (v *VerifHist) Backward() [][2]int64 {
	var out [][2]int64
	for r := range v.h.Backward() {
		out = append(out, [2]int64{int64(r.Start), int64(r.End)})
	}
	return out
}

func verifRanges(h *receivedPacketHistory) [][2]int64 {
	out := make([][2]int64, 0, len(h.ranges))
	for _, r := range h.ranges {
		out = append(out, [2]int64{int64(r.Start), int64(r.End)})
	}
	return out
}

// ---- the three-space handler ----

type VerifSpace struct {
	Present           bool
	Ranges            [][2]int64 // ascending, as stored
	DeletedBelow      int64
	ECT0, ECT1, ECNCE uint64
	HasNewAck         bool
	HasLastAck        bool
	LastAck           [][2]int64 // (Smallest, Largest), as stored in the frame (descending)
}

type VerifRPHState struct {
	Initial, Handshake, App VerifSpace
	LargestObserved         int64
	LorTime                 int64
	IgnoreBelow             int64
	MaxAckDelay             int64
	AckQueued               bool
	Cnt                     int64
	Alarm                   int64
	Lowest1RTT              int64
}

func verifSpace(t *receivedPacketTracker) VerifSpace {
	if t == nil {
		return VerifSpace{}
	}
	s := VerifSpace{
		Present: true, Ranges: verifRanges(&t.packetHistory), DeletedBelow: int64(t.packetHistory.deletedBelow),
		ECT0: t.ect0, ECT1: t.ect1, ECNCE: t.ecnce, HasNewAck: t.hasNewAck,
	}
	if t.lastAck != nil {
		s.HasLastAck = true
		for _, r := range t.lastAck.AckRanges {
			s.LastAck = append(s.LastAck, [2]int64{int64(r.Smallest), int64(r.Largest)})
		}
	}
	return s
}

func VerifNewRPH() *ReceivedPacketHandler { return NewReceivedPacketHandler(utils.DefaultLogger) }

func VerifRPHSnapshot(h *ReceivedPacketHandler) VerifRPHState {
	a := &h.appDataPackets
	return VerifRPHState{
		Initial: verifSpace(h.initialPackets), Handshake: verifSpace(h.handshakePackets),
		App:             verifSpace(&a.receivedPacketTracker),
		LargestObserved: int64(a.largestObserved), LorTime: int64(a.largestObservedRcvdTime),
		IgnoreBelow: int64(a.ignoreBelow), MaxAckDelay: int64(a.maxAckDelay), AckQueued: a.ackQueued,
		Cnt: int64(a.ackElicitingPacketsReceivedSinceLastAck), Alarm: int64(a.ackAlarm),
		Lowest1RTT: int64(h.lowest1RTTPacket),
	}
}
