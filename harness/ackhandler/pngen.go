//go:build verif

package ackhandler

import "github.com/refraction-networking/uquic/internal/protocol"

// VerifPNGen wraps the unexported packet number generators for the C05 `pktnum` unit.
type VerifPNGen struct {
	g packetNumberGenerator
}

func VerifNewSequentialPNGen(initial protocol.PacketNumber) *VerifPNGen {
	return &VerifPNGen{g: newSequentialPacketNumberGenerator(initial)}
}

func VerifNewSkippingPNGen(initial, initialPeriod, maxPeriod protocol.PacketNumber) *VerifPNGen {
	return &VerifPNGen{g: newSkippingPacketNumberGenerator(initial, initialPeriod, maxPeriod)}
}

func (v *VerifPNGen) Peek() protocol.PacketNumber        { return v.g.Peek() }
func (v *VerifPNGen) Pop() (bool, protocol.PacketNumber) { return v.g.Pop() }

// SkipState reads the skipping generator's fields (observation only): the harness derives
// the random draw of the last generateNewSkip from them (nextToSkip - next - 3).
func (v *VerifPNGen) SkipState() (period, maxPeriod, next, nextToSkip protocol.PacketNumber, ok bool) {
	s, ok := v.g.(*skippingPacketNumberGenerator)
	if !ok {
		return 0, 0, 0, 0, false
	}
	return s.period, s.maxPeriod, s.next, s.nextToSkip, true
}

// VerifPPSetLargestAcked sets the largest acknowledged packet number of a packet number space
// of a real sentPacketHandler (configuration for the C05 `protect` unit: the packer takes the
// packet number and its length from sentPacketHandler.PeekPacketNumber).
func VerifPPSetLargestAcked(h SentPacketHandler, encLevel protocol.EncryptionLevel, pn protocol.PacketNumber) {
	h.(*sentPacketHandler).getPacketNumberSpace(encLevel).largestAcked = pn
}

// VerifPPSetNextPN restarts the packet number generator of a space at pn (the generators the
// handler itself uses: skipping for application data, sequential otherwise).
func VerifPPSetNextPN(h SentPacketHandler, encLevel protocol.EncryptionLevel, pn protocol.PacketNumber) {
	sp := h.(*sentPacketHandler).getPacketNumberSpace(encLevel)
	if encLevel == protocol.Encryption1RTT || encLevel == protocol.Encryption0RTT {
		sp.pns = newSkippingPacketNumberGenerator(pn, protocol.SkipPacketInitialPeriod, protocol.SkipPacketMaxPeriod)
	} else {
		sp.pns = newSequentialPacketNumberGenerator(pn)
	}
}
