//go:build verif

// Package verifutil: helpers shared by the verification harness (build tag verif only).
package verifutil

import (
	"encoding/hex"
	"fmt"
	"strings"
)

// Rng is SplitMix64: every random choice of a check derives from VERIF_SEED through it.
type Rng struct{ s uint64 }

// NewRng mixes the seed through the SplitMix64 finalizer first, so that consecutive seeds
// give unrelated streams (seed and seed+1 must not be shifted copies of each other).
func NewRng(seed uint64) *Rng {
	z := seed + 0x9E3779B97F4A7C15
	z = (z ^ (z >> 30)) * 0xBF58476D1CE4E5B9
	z = (z ^ (z >> 27)) * 0x94D049BB133111EB
	return &Rng{s: z ^ (z >> 31)}
}

func (r *Rng) U64() uint64 {
	r.s += 0x9E3779B97F4A7C15
	z := r.s
	z = (z ^ (z >> 30)) * 0xBF58476D1CE4E5B9
	z = (z ^ (z >> 27)) * 0x94D049BB133111EB
	return z ^ (z >> 31)
}

// Intn returns a value in [0,n).
func (r *Rng) Intn(n int) int {
	if n <= 0 {
		return 0
	}
	return int(r.U64() % uint64(n))
}
func (r *Rng) Range(lo, hi int) int { return lo + r.Intn(hi-lo+1) }
func (r *Rng) Bool() bool          { return r.U64()&1 == 1 }
func (r *Rng) Chance(num, den int) bool { return r.Intn(den) < num }
func (r *Rng) Bytes(n int) []byte {
	b := make([]byte, n)
	for i := range b {
		b[i] = byte(r.U64())
	}
	return b
}
func (r *Rng) Pick(xs ...int64) int64 { return xs[r.Intn(len(xs))] }

// Fork derives an independent stream (used per case so cases replay individually).
func (r *Rng) Fork() *Rng { return NewRng(r.U64()) }

// ---- Coq term printing ----

func Z(n int64) string {
	if n < 0 {
		return fmt.Sprintf("(%d)", n)
	}
	return fmt.Sprintf("%d", n)
}
func ZU(n uint64) string { return fmt.Sprintf("%d", n) }
func B(b bool) string {
	if b {
		return "true"
	}
	return "false"
}
func Hex(b []byte) string { return `"` + hex.EncodeToString(b) + `"` }
func List(xs []string) string { return "[" + strings.Join(xs, "; ") + "]" }
func ZList(xs []int64) string {
	s := make([]string, len(xs))
	for i, x := range xs {
		s[i] = Z(x)
	}
	return List(s)
}
func Opt(ok bool, s string) string {
	if !ok {
		return "None"
	}
	return "(Some " + s + ")"
}
func Pair(xs ...string) string { return "(" + strings.Join(xs, ", ") + ")" }
func App(c string, xs ...string) string {
	if len(xs) == 0 {
		return c
	}
	return "(" + c + " " + strings.Join(xs, " ") + ")"
}
