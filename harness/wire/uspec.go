//go:build verif

package wire

// C11 (uspec): the parameter ids PopulateFromUQUIC switches on, for coq/Gen/Params.v.
func VerifUSpecConsts() [][2]any {
	return [][2]any{
		{"tpid_maxIdleTimeout", uint64(maxIdleTimeoutParameterID)},
		{"tpid_initialMaxData", uint64(initialMaxDataParameterID)},
		{"tpid_initialMaxStreamDataBidiLocal", uint64(initialMaxStreamDataBidiLocalParameterID)},
		{"tpid_initialMaxStreamDataBidiRemote", uint64(initialMaxStreamDataBidiRemoteParameterID)},
		{"tpid_initialMaxStreamDataUni", uint64(initialMaxStreamDataUniParameterID)},
		{"tpid_initialMaxStreamsBidi", uint64(initialMaxStreamsBidiParameterID)},
		{"tpid_initialMaxStreamsUni", uint64(initialMaxStreamsUniParameterID)},
		{"tpid_maxAckDelay", uint64(maxAckDelayParameterID)},
		{"tpid_disableActiveMigration", uint64(disableActiveMigrationParameterID)},
		{"tpid_activeConnectionIDLimit", uint64(activeConnectionIDLimitParameterID)},
		{"tpid_initialSourceConnectionID", uint64(initialSourceConnectionIDParameterID)},
		{"tpid_maxDatagramFrameSize", uint64(maxDatagramFrameSizeParameterID)},
		{"tpid_maxUDPPayloadSize", uint64(maxUDPPayloadSizeParameterID)},
		{"tpid_ackDelayExponent", uint64(ackDelayExponentParameterID)},
	}
}
