//go:build verif

package wire

import "github.com/refraction-networking/uquic/internal/protocol"

// VerifAckRanges builds an AckFrame from (Smallest, Largest) pairs and reports what the
// unexported validateAckRanges says about it (RecvPH unit, property C07).
func VerifRPHValidateAckRanges(rs [][2]int64) bool {
	f := &AckFrame{}
	for _, r := range rs {
		f.AckRanges = append(f.AckRanges, AckRange{Smallest: protocol.PacketNumber(r[0]), Largest: protocol.PacketNumber(r[1])})
	}
	return f.validateAckRanges()
}

// VerifAcksPacket is AckFrame.AcksPacket on the given ranges.
func VerifAcksPacket(rs [][2]int64, p int64) bool {
	f := &AckFrame{}
	for _, r := range rs {
		f.AckRanges = append(f.AckRanges, AckRange{Smallest: protocol.PacketNumber(r[0]), Largest: protocol.PacketNumber(r[1])})
	}
	return f.AcksPacket(protocol.PacketNumber(p))
}
