//go:build verif

package wire

import (
	"errors"
	"fmt"
	"io"
	"strings"

	"github.com/refraction-networking/uquic/internal/protocol"
	u "github.com/refraction-networking/uquic/internal/verifutil"
)

// VerifHeaderConsts: constants of the header codecs for coq/Gen/Params.v (prefix H_).
// W_MaxConnIDLen is already exported by the frames unit.
func VerifHeaderConsts() [][2]any {
	sv := make([]string, len(protocol.SupportedVersions))
	for i, v := range protocol.SupportedVersions {
		sv[i] = u.ZU(uint64(v))
	}
	return [][2]any{
		{"H_Version1", uint64(protocol.Version1)}, {"H_Version2", uint64(protocol.Version2)},
		{"H_SupportedVersions", "list Z := " + u.List(sv)},
		{"H_PacketTypeInitial", uint64(protocol.PacketTypeInitial)}, {"H_PacketTypeRetry", uint64(protocol.PacketTypeRetry)},
		{"H_PacketTypeHandshake", uint64(protocol.PacketTypeHandshake)}, {"H_PacketType0RTT", uint64(protocol.PacketType0RTT)},
		{"H_KeyPhaseZero", uint64(protocol.KeyPhaseZero)}, {"H_KeyPhaseOne", uint64(protocol.KeyPhaseOne)},
	}
}

// VerifParseHeader exposes the unexported parseHeader (what ParsePacket runs first).
func VerifParseHeader(b []byte) (*Header, error) { return parseHeader(b) }

// VerifHdrErrClass maps an error of the header codecs to the model's error class (coq/Wire/Headers.v).
func VerifHdrErrClass(err error) int {
	switch {
	case err == nil:
		return 0
	case err == io.EOF:
		return 1
	case err == io.ErrUnexpectedEOF:
		return 2
	case err == protocol.ErrInvalidConnectionIDLen:
		return 4
	case errors.Is(err, ErrUnsupportedVersion):
		return 5
	case err == ErrInvalidReservedBits:
		return 8
	}
	m := err.Error()
	switch {
	case m == "not a QUIC packet":
		return 3
	case m == "not a long header packet":
		return 6
	case strings.HasPrefix(m, "packet length (") && strings.Contains(m, "is smaller than the expected length"):
		return 7
	case m == "not a short header packet":
		return 9
	case m == "Version Negotiation packet has empty version list":
		return 10
	case m == "Version Negotiation packet has a version list with an invalid length":
		return 11
	case strings.HasPrefix(m, "invalid connection ID length:"):
		return 12
	case strings.HasPrefix(m, "invalid packet number length:"):
		return 13
	}
	return 99
}

// VerifDumpHeader prints a Header as a Coq term of type Wire.Headers.header.
func VerifDumpHeader(h *Header) string {
	return u.App("mkHeader", u.Z(int64(h.typeByte)), u.Z(int64(h.Type)), u.ZU(uint64(h.Version)),
		verifBytes(h.SrcConnectionID.Bytes()), verifBytes(h.DestConnectionID.Bytes()),
		u.Z(int64(h.Length)), verifBytes(h.Token), u.Z(int64(h.parsedLen)))
}

// VerifDumpExt prints an ExtendedHeader as a Coq term of type Wire.Headers.exthdr.
func VerifDumpExt(e *ExtendedHeader) string {
	return u.App("mkExt", VerifDumpHeader(&e.Header), u.Z(int64(e.typeByte)), u.Z(int64(e.PacketNumberLen)),
		u.Z(int64(e.PacketNumber)), u.Z(int64(e.parsedLen)))
}

// VerifExtTypeByte: the (unprotected) first byte ExtendedHeader.parse recorded.
func VerifExtTypeByte(e *ExtendedHeader) byte { return e.typeByte }

// VerifExtKeyPhase: the long-header code never sets KeyPhase (monitored).
func VerifExtKeyPhase(e *ExtendedHeader) protocol.KeyPhaseBit { return e.KeyPhase }

// VerifHeaderString is a short human-readable form for monitor details.
func VerifHeaderString(h *Header) string {
	return fmt.Sprintf("{tb=%#x type=%d ver=%#x dst=%x src=%x len=%d tok=%x parsed=%d}", h.typeByte, h.Type, uint32(h.Version),
		h.DestConnectionID.Bytes(), h.SrcConnectionID.Bytes(), h.Length, h.Token, h.parsedLen)
}
