//go:build verif

package wire

import "github.com/refraction-networking/uquic/internal/protocol"

// C03 harness: observe StreamFrame.PutBack. The pool's New is replaced by one that
// returns nil, so draining the pool yields exactly the frames that were put back.
// Only the recvstream unit calls VerifTrackStreamFramePool (one unit per process).

func VerifTrackStreamFramePool() {
	pool.New = func() any { return (*StreamFrame)(nil) }
	for {
		if f := pool.Get().(*StreamFrame); f == nil {
			return
		}
	}
}

// VerifDrainStreamFramePool returns the frames put back since the last drain.
func VerifDrainStreamFramePool() []*StreamFrame {
	var out []*StreamFrame
	for {
		f := pool.Get().(*StreamFrame)
		if f == nil {
			return out
		}
		out = append(out, f)
	}
}

// VerifPooledStreamFrame returns a frame that looks like one obtained from the pool
// (PutBack will really put it back), with n data bytes.
func VerifPooledStreamFrame(n int) *StreamFrame {
	if n > int(protocol.MaxPacketBufferSize) {
		panic("VerifPooledStreamFrame: frame larger than a packet buffer")
	}
	return &StreamFrame{Data: make([]byte, n, protocol.MaxPacketBufferSize), fromPool: true}
}
