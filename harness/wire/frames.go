//go:build verif

package wire

import (
	"errors"
	"fmt"
	"io"
	"strings"

	"github.com/refraction-networking/uquic/internal/protocol"
	"github.com/refraction-networking/uquic/internal/qerr"
	u "github.com/refraction-networking/uquic/internal/verifutil"
)

// VerifFrameConsts: constants and tables of the frame codecs for coq/Gen/Params.v.
// The per-level allow-list is the real predicate evaluated over all one-byte frame types.
func VerifFrameConsts() [][2]any {
	levels := []protocol.EncryptionLevel{protocol.EncryptionInitial, protocol.EncryptionHandshake, protocol.Encryption0RTT, protocol.Encryption1RTT}
	rows := make([]string, 0, 4)
	for _, l := range levels {
		cells := make([]string, 256)
		for t := 0; t < 256; t++ {
			cells[t] = u.B(FrameType(t).isAllowedAtEncLevel(l))
		}
		rows = append(rows, u.List(cells))
	}
	return [][2]any{
		{"FT_Ping", uint64(FrameTypePing)}, {"FT_Ack", uint64(FrameTypeAck)}, {"FT_AckECN", uint64(FrameTypeAckECN)},
		{"FT_ResetStream", uint64(FrameTypeResetStream)}, {"FT_StopSending", uint64(FrameTypeStopSending)},
		{"FT_Crypto", uint64(FrameTypeCrypto)}, {"FT_NewToken", uint64(FrameTypeNewToken)},
		{"FT_MaxData", uint64(FrameTypeMaxData)}, {"FT_MaxStreamData", uint64(FrameTypeMaxStreamData)},
		{"FT_BidiMaxStreams", uint64(FrameTypeBidiMaxStreams)}, {"FT_UniMaxStreams", uint64(FrameTypeUniMaxStreams)},
		{"FT_DataBlocked", uint64(FrameTypeDataBlocked)}, {"FT_StreamDataBlocked", uint64(FrameTypeStreamDataBlocked)},
		{"FT_BidiStreamBlocked", uint64(FrameTypeBidiStreamBlocked)}, {"FT_UniStreamBlocked", uint64(FrameTypeUniStreamBlocked)},
		{"FT_NewConnectionID", uint64(FrameTypeNewConnectionID)}, {"FT_RetireConnectionID", uint64(FrameTypeRetireConnectionID)},
		{"FT_PathChallenge", uint64(FrameTypePathChallenge)}, {"FT_PathResponse", uint64(FrameTypePathResponse)},
		{"FT_ConnectionClose", uint64(FrameTypeConnectionClose)}, {"FT_ApplicationClose", uint64(FrameTypeApplicationClose)},
		{"FT_HandshakeDone", uint64(FrameTypeHandshakeDone)}, {"FT_ResetStreamAt", uint64(FrameTypeResetStreamAt)},
		{"FT_AckFrequency", uint64(FrameTypeAckFrequency)}, {"FT_ImmediateAck", uint64(FrameTypeImmediateAck)},
		{"FT_DatagramNoLength", uint64(FrameTypeDatagramNoLength)}, {"FT_DatagramWithLength", uint64(FrameTypeDatagramWithLength)},
		{"W_MaxNumAckRanges", int64(protocol.MaxNumAckRanges)},
		{"W_AckDelayExponent", int64(protocol.AckDelayExponent)},
		{"W_DefaultAckDelayExponent", int64(protocol.DefaultAckDelayExponent)},
		{"W_MaxAckDelayExponent", int64(protocol.MaxAckDelayExponent)},
		{"W_MinStreamFrameBufferSize", int64(protocol.MinStreamFrameBufferSize)},
		{"W_MaxPacketBufferSize", int64(protocol.MaxPacketBufferSize)},
		{"W_MaxByteCount", int64(protocol.MaxByteCount)},
		{"W_MaxStreamCount", int64(protocol.MaxStreamCount)},
		{"W_MaxConnIDLen", int64(protocol.MaxConnIDLen)},
		{"W_EncryptionInitial", int64(protocol.EncryptionInitial)}, {"W_EncryptionHandshake", int64(protocol.EncryptionHandshake)},
		{"W_Encryption0RTT", int64(protocol.Encryption0RTT)}, {"W_Encryption1RTT", int64(protocol.Encryption1RTT)},
		{"W_frames_allowed", "list (list bool) := " + u.List(rows)},
	}
}

// VerifParseNext parses one frame from the front of b exactly the way connection.handleFrames
// does: ParseType, then the STREAM / ACK / DATAGRAM fast paths or ParseLessCommonFrame.
// It returns the frame, the bytes ParseType consumed, the bytes the body parser reported, the stage
// that produced the error (0 = ParseType, 1 = body parser), and the error.
func VerifParseNext(p *FrameParser, b []byte, lvl protocol.EncryptionLevel, v protocol.Version) (f Frame, lt, lb int, stage int, err error) {
	ft, l, err := p.ParseType(b, lvl)
	if err != nil {
		return nil, l, 0, 0, err
	}
	b = b[l:]
	lt = l
	stage = 1
	switch {
	case ft.IsStreamFrameType():
		var sf *StreamFrame
		sf, lb, err = p.ParseStreamFrame(ft, b, v)
		if sf != nil {
			f = sf
		}
	case ft.IsAckFrameType():
		var af *AckFrame
		af, lb, err = p.ParseAckFrame(ft, b, lvl, v)
		if af != nil {
			f = af
		}
	case ft.IsDatagramFrameType():
		var df *DatagramFrame
		df, lb, err = p.ParseDatagramFrame(ft, b, v)
		if df != nil {
			f = df
		}
	default:
		f, lb, err = p.ParseLessCommonFrame(ft, b, v)
	}
	return f, lt, lb, stage, err
}

// VerifErrClass maps an error of the frame parser to the model's error class (coq/Wire/FramesBase.v).
func VerifErrClass(err error) int {
	if err == nil {
		return 0
	}
	if err == io.EOF {
		return 1
	}
	var te *qerr.TransportError
	if !errors.As(err, &te) || te.ErrorCode != qerr.FrameEncodingError {
		return 99
	}
	m := te.ErrorMessage
	switch {
	case m == "EOF":
		return 2
	case m == "unexpected EOF":
		return 3
	case m == errUnknownFrameType.Error():
		return 4
	case strings.Contains(m, "not allowed at encryption level"):
		return 5
	case m == "invalid first ACK range":
		return 10
	case m == errInvalidAckRanges.Error():
		return 11
	case m == "stream data overflows maximum offset":
		return 12
	case strings.HasSuffix(m, "exceeds the maximum stream count"):
		return 13
	case strings.HasPrefix(m, "RESET_STREAM_AT: reliable size"):
		return 14
	case strings.HasPrefix(m, "Retire Prior To value"):
		return 15
	case m == "invalid zero-length connection ID":
		return 16
	case m == protocol.ErrInvalidConnectionIDLen.Error():
		return 17
	case m == "token must not be empty":
		return 18
	}
	return 99
}

// VerifDumpFrame prints a frame as a Coq term of type Wire.FramesBase.frame.
func VerifDumpFrame(fr Frame) string {
	switch f := fr.(type) {
	case *PingFrame:
		return "FPing"
	case *HandshakeDoneFrame:
		return "FHandshakeDone"
	case *ImmediateAckFrame:
		return "FImmediateAck"
	case *AckFrame:
		rs := make([]string, len(f.AckRanges))
		for i, r := range f.AckRanges {
			rs[i] = u.Pair(u.Z(int64(r.Smallest)), u.Z(int64(r.Largest)))
		}
		return u.App("FAck", u.List(rs), u.Z(int64(f.DelayTime)), u.ZU(f.ECT0), u.ZU(f.ECT1), u.ZU(f.ECNCE))
	case *ResetStreamFrame:
		return u.App("FResetStream", u.Z(int64(f.StreamID)), u.ZU(uint64(f.ErrorCode)), u.Z(int64(f.FinalSize)), u.Z(int64(f.ReliableSize)))
	case *StopSendingFrame:
		return u.App("FStopSending", u.Z(int64(f.StreamID)), u.ZU(uint64(f.ErrorCode)))
	case *CryptoFrame:
		return u.App("FCrypto", u.Z(int64(f.Offset)), verifBytes(f.Data))
	case *NewTokenFrame:
		return u.App("FNewToken", verifBytes(f.Token))
	case *StreamFrame:
		return u.App("FStream", u.Z(int64(f.StreamID)), u.Z(int64(f.Offset)), verifBytes(f.Data), u.B(f.Fin), u.B(f.DataLenPresent))
	case *MaxDataFrame:
		return u.App("FMaxData", u.Z(int64(f.MaximumData)))
	case *MaxStreamDataFrame:
		return u.App("FMaxStreamData", u.Z(int64(f.StreamID)), u.Z(int64(f.MaximumStreamData)))
	case *MaxStreamsFrame:
		return u.App("FMaxStreams", u.B(f.Type == protocol.StreamTypeUni), u.Z(int64(f.MaxStreamNum)))
	case *DataBlockedFrame:
		return u.App("FDataBlocked", u.Z(int64(f.MaximumData)))
	case *StreamDataBlockedFrame:
		return u.App("FStreamDataBlocked", u.Z(int64(f.StreamID)), u.Z(int64(f.MaximumStreamData)))
	case *StreamsBlockedFrame:
		return u.App("FStreamsBlocked", u.B(f.Type == protocol.StreamTypeUni), u.Z(int64(f.StreamLimit)))
	case *NewConnectionIDFrame:
		return u.App("FNewConnectionID", u.ZU(f.SequenceNumber), u.ZU(f.RetirePriorTo), verifBytes(f.ConnectionID.Bytes()), verifBytes(f.StatelessResetToken[:]))
	case *RetireConnectionIDFrame:
		return u.App("FRetireConnectionID", u.ZU(f.SequenceNumber))
	case *PathChallengeFrame:
		return u.App("FPathChallenge", verifBytes(f.Data[:]))
	case *PathResponseFrame:
		return u.App("FPathResponse", verifBytes(f.Data[:]))
	case *ConnectionCloseFrame:
		return u.App("FConnectionClose", u.B(f.IsApplicationError), u.ZU(f.ErrorCode), u.ZU(f.FrameType), verifBytes([]byte(f.ReasonPhrase)))
	case *DatagramFrame:
		return u.App("FDatagram", u.B(f.DataLenPresent), verifBytes(f.Data))
	case *AckFrequencyFrame:
		return u.App("FAckFrequency", u.ZU(f.SequenceNumber), u.ZU(f.AckElicitingThreshold), u.Z(int64(f.RequestMaxAckDelay)), u.Z(int64(f.ReorderingThreshold)))
	}
	return fmt.Sprintf("(UNKNOWN_FRAME %T)", fr)
}

func verifBytes(b []byte) string { return "(hx " + u.Hex(b) + ")" }

// VerifFramesEqual compares two frames by value (the dump is canonical).
func VerifFramesEqual(a, b Frame) bool { return VerifDumpFrame(a) == VerifDumpFrame(b) }

// VerifNumEncodableAckRanges exposes the unexported helper of Truncate.
func VerifNumEncodableAckRanges(f *AckFrame, maxSize protocol.ByteCount) int {
	return f.numEncodableAckRanges(maxSize)
}

// VerifValidateAckRanges exposes validateAckRanges.
func VerifValidateAckRanges(f *AckFrame) bool { return f.validateAckRanges() }

// VerifStreamFrameFromPool reports whether a frame owns a pool buffer.
func VerifStreamFrameFromPool(f *StreamFrame) bool { return f.fromPool }
