//go:build verif

package wire

import (
	"errors"
	"fmt"
	"net/netip"
	"strconv"
	"strings"
	"time"

	"github.com/refraction-networking/uquic/internal/protocol"
	"github.com/refraction-networking/uquic/internal/qerr"
	u "github.com/refraction-networking/uquic/internal/verifutil"
)

// VerifTParamConsts: parameter ids, defaults and limits of transport_parameters.go for
// coq/Gen/Params.v.  (The literals 1200, 2 and 16 of the range rules are written in the code
// itself; the model repeats them and the theorems fix the numbers.)
func VerifTParamConsts() [][2]any {
	return [][2]any{
		{"TP_ID_odcid", uint64(originalDestinationConnectionIDParameterID)},
		{"TP_ID_mit", uint64(maxIdleTimeoutParameterID)},
		{"TP_ID_srt", uint64(statelessResetTokenParameterID)},
		{"TP_ID_mups", uint64(maxUDPPayloadSizeParameterID)},
		{"TP_ID_imd", uint64(initialMaxDataParameterID)},
		{"TP_ID_imsd_bl", uint64(initialMaxStreamDataBidiLocalParameterID)},
		{"TP_ID_imsd_br", uint64(initialMaxStreamDataBidiRemoteParameterID)},
		{"TP_ID_imsd_uni", uint64(initialMaxStreamDataUniParameterID)},
		{"TP_ID_mbs", uint64(initialMaxStreamsBidiParameterID)},
		{"TP_ID_mus", uint64(initialMaxStreamsUniParameterID)},
		{"TP_ID_ade", uint64(ackDelayExponentParameterID)},
		{"TP_ID_mad", uint64(maxAckDelayParameterID)},
		{"TP_ID_dam", uint64(disableActiveMigrationParameterID)},
		{"TP_ID_pa", uint64(preferredAddressParameterID)},
		{"TP_ID_acil", uint64(activeConnectionIDLimitParameterID)},
		{"TP_ID_iscid", uint64(initialSourceConnectionIDParameterID)},
		{"TP_ID_rscid", uint64(retrySourceConnectionIDParameterID)},
		{"TP_ID_mdfs", uint64(maxDatagramFrameSizeParameterID)},
		{"TP_ID_rsa", uint64(resetStreamAtParameterID)},
		{"TP_ID_minad", uint64(minAckDelayParameterID)},
		{"TP_MarshalVersion", int64(transportParameterMarshalingVersion)},
		{"TP_DefaultAckDelayExponent", int64(protocol.DefaultAckDelayExponent)},
		{"TP_MaxAckDelayExponent", int64(protocol.MaxAckDelayExponent)},
		{"TP_DefaultMaxAckDelay", int64(protocol.DefaultMaxAckDelay)},
		{"TP_MaxMaxAckDelayMs", int64(protocol.MaxMaxAckDelay / time.Millisecond)},
		{"TP_DefaultActiveConnectionIDLimit", int64(protocol.DefaultActiveConnectionIDLimit)},
		{"TP_InvalidByteCount", int64(protocol.InvalidByteCount)},
		{"TP_MaxByteCount", int64(protocol.MaxByteCount)},
		{"TP_MaxStreamCount", int64(protocol.MaxStreamCount)},
		{"TP_MaxConnIDLen", int64(protocol.MaxConnIDLen)},
		{"TP_MinRemoteIdleTimeout", int64(protocol.MinRemoteIdleTimeout)},
		{"TP_Millisecond", int64(time.Millisecond)},
		{"TP_Microsecond", int64(time.Microsecond)},
	}
}

// VerifTPErrClass maps an error of Unmarshal / UnmarshalFromSessionTicket to the model's error
// class and auxiliary value (coq/Wire/TParams.v).  Classification is by message, because the
// code builds its errors with fmt.Errorf; Unmarshal wraps the message into a TransportError.
func VerifTPErrClass(err error) (cls int, aux uint64) {
	if err == nil {
		return 0, 0
	}
	m := err.Error()
	var te *qerr.TransportError
	if errors.As(err, &te) {
		if te.ErrorCode != qerr.TransportParameterError {
			return 99, 0
		}
		m = te.ErrorMessage
	}
	num := func(s string, base int) uint64 {
		s = strings.TrimPrefix(s, "0x")
		end := 0
		for end < len(s) && strings.ContainsRune("0123456789abcdef", rune(s[end])) {
			if base == 10 && s[end] > '9' {
				break
			}
			end++
		}
		v, _ := strconv.ParseUint(s[:end], base, 64)
		return v
	}
	const (
		pRead  = "error while reading transport parameter "
		pIncon = "inconsistent transport parameter length for transport parameter "
		pDup   = "received duplicate transport parameter "
		pPaCid = "invalid connection ID length: "
	)
	switch {
	case m == "EOF":
		return 1, 0
	case m == "unexpected EOF":
		return 2, 0
	case strings.HasPrefix(m, "remaining length ("):
		return 3, 0
	case strings.HasPrefix(m, pRead) && strings.HasSuffix(m, ": EOF"):
		return 4, num(m[len(pRead):], 10)
	case strings.HasPrefix(m, pRead) && strings.HasSuffix(m, ": unexpected EOF"):
		return 5, num(m[len(pRead):], 10)
	case strings.HasPrefix(m, pIncon):
		return 6, num(m[len(pIncon):], 16)
	case strings.HasPrefix(m, "initial_max_streams_bidi too large"):
		return 7, 0
	case strings.HasPrefix(m, "initial_max_streams_uni too large"):
		return 8, 0
	case strings.HasPrefix(m, "invalid value for max_udp_payload_size"):
		return 9, 0
	case strings.HasPrefix(m, "invalid value for ack_delay_exponent"):
		return 10, 0
	case strings.HasPrefix(m, "invalid value for max_ack_delay"):
		return 11, 0
	case strings.HasPrefix(m, "invalid value for active_connection_id_limit"):
		return 12, 0
	case m == "client sent a preferred_address":
		return 13, 0
	case m == "client sent a stateless_reset_token":
		return 14, 0
	case m == "client sent an original_destination_connection_id":
		return 15, 0
	case m == "client sent a retry_source_connection_id":
		return 16, 0
	case strings.HasPrefix(m, "wrong length for disable_active_migration"):
		return 17, 0
	case strings.HasPrefix(m, "wrong length for stateless_reset_token"):
		return 18, 0
	case m == protocol.ErrInvalidConnectionIDLen.Error():
		return 19, 0
	case strings.HasPrefix(m, pPaCid):
		return 20, num(m[len(pPaCid):], 10)
	case strings.HasPrefix(m, "expected preferred_address to be"):
		return 21, 0
	case strings.HasPrefix(m, "wrong length for reset_stream_at"):
		return 22, 0
	case strings.HasPrefix(m, "min_ack_delay ("):
		return 23, 0
	case m == "missing original_destination_connection_id":
		return 24, 0
	case m == "missing initial_source_connection_id":
		return 25, 0
	case strings.HasPrefix(m, pDup):
		return 26, num(m[len(pDup):], 16)
	case strings.HasPrefix(m, "unknown transport parameter marshaling version"):
		return 27, 0
	}
	return 99, 0
}

func verifAddrPort(ap netip.AddrPort, v6 bool) string {
	if !ap.IsValid() {
		return "None"
	}
	var ip []byte
	if v6 {
		a := ap.Addr().As16()
		ip = a[:]
	} else {
		a := ap.Addr().As4()
		ip = a[:]
	}
	return "(Some " + u.Pair(verifBytes(ip), u.Z(int64(ap.Port()))) + ")"
}

// VerifDumpTParams prints the parameters as a Coq term of type Wire.TParams.tparams
// (durations in nanoseconds, connection IDs and tokens as byte strings).
func VerifDumpTParams(p *TransportParameters) string {
	pa := "None"
	if p.PreferredAddress != nil {
		a := p.PreferredAddress
		pa = "(Some " + u.App("mkPA", verifAddrPort(a.IPv4, false), verifAddrPort(a.IPv6, true),
			verifBytes(a.ConnectionID.Bytes()), verifBytes(a.StatelessResetToken[:])) + ")"
	}
	rscid := "None"
	if p.RetrySourceConnectionID != nil {
		rscid = "(Some " + verifBytes(p.RetrySourceConnectionID.Bytes()) + ")"
	}
	srt := "None"
	if p.StatelessResetToken != nil {
		srt = "(Some " + verifBytes(p.StatelessResetToken[:]) + ")"
	}
	minad := "None"
	if p.MinAckDelay != nil {
		minad = "(Some " + u.Z(int64(*p.MinAckDelay)) + ")"
	}
	co := "None"
	if p.ClientOverride != nil {
		co = "(Some " + verifBytes(p.ClientOverride) + ")"
	}
	return u.App("mkTP",
		u.Z(int64(p.InitialMaxStreamDataBidiLocal)), u.Z(int64(p.InitialMaxStreamDataBidiRemote)),
		u.Z(int64(p.InitialMaxStreamDataUni)), u.Z(int64(p.InitialMaxData)),
		u.Z(int64(p.MaxAckDelay)), u.Z(int64(p.AckDelayExponent)), u.B(p.DisableActiveMigration),
		u.Z(int64(p.MaxUDPPayloadSize)), u.Z(int64(p.MaxUniStreamNum)), u.Z(int64(p.MaxBidiStreamNum)),
		u.Z(int64(p.MaxIdleTimeout)), pa,
		verifBytes(p.OriginalDestinationConnectionID.Bytes()), verifBytes(p.InitialSourceConnectionID.Bytes()),
		rscid, srt, u.ZU(p.ActiveConnectionIDLimit), u.Z(int64(p.MaxDatagramFrameSize)),
		u.B(p.EnableResetStreamAt), minad, co, u.Z(int64(p.AdvertisedMaxIdleTimeout)))
}

// VerifTParamsEqual compares two parameter sets by value (the dump is canonical).
func VerifTParamsEqual(a, b *TransportParameters) bool { return VerifDumpTParams(a) == VerifDumpTParams(b) }

// VerifTPString exercises String() (logging path) and reports a panic as an error.
func VerifTPString(p *TransportParameters) (s string, err error) {
	defer func() {
		if e := recover(); e != nil {
			err = fmt.Errorf("String panicked: %v", e)
		}
	}()
	return p.String(), nil
}
