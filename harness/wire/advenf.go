//go:build verif

package wire

// C12 (advenf): constants of the transport-parameter codec and the frame parser's
// datagram switch, exported for the verification harness.

// VerifAdvEnfConsts lists the transport parameter IDs the C12 model interprets and the
// DATAGRAM frame size bound enforced by Conn.handleDatagramFrame.
func VerifAdvEnfConsts() [][2]any {
	return [][2]any{
		{"tpMaxIdleTimeout", uint64(maxIdleTimeoutParameterID)},
		{"tpMaxUDPPayloadSize", uint64(maxUDPPayloadSizeParameterID)},
		{"tpInitialMaxData", uint64(initialMaxDataParameterID)},
		{"tpInitialMaxStreamDataBidiLocal", uint64(initialMaxStreamDataBidiLocalParameterID)},
		{"tpInitialMaxStreamDataBidiRemote", uint64(initialMaxStreamDataBidiRemoteParameterID)},
		{"tpInitialMaxStreamDataUni", uint64(initialMaxStreamDataUniParameterID)},
		{"tpInitialMaxStreamsBidi", uint64(initialMaxStreamsBidiParameterID)},
		{"tpInitialMaxStreamsUni", uint64(initialMaxStreamsUniParameterID)},
		{"tpActiveConnectionIDLimit", uint64(activeConnectionIDLimitParameterID)},
		{"tpInitialSourceConnectionID", uint64(initialSourceConnectionIDParameterID)},
		{"tpMaxDatagramFrameSize", uint64(maxDatagramFrameSizeParameterID)},
		{"tpAckDelayExponent", uint64(ackDelayExponentParameterID)},
		{"tpMaxAckDelay", uint64(maxAckDelayParameterID)},
		{"tpDisableActiveMigration", uint64(disableActiveMigrationParameterID)},
		{"wireMaxDatagramSize", int64(MaxDatagramSize)},
	}
}

// VerifAdvEnfSupportsDatagrams reads the frame parser's DATAGRAM switch.
func VerifAdvEnfSupportsDatagrams(p *FrameParser) bool { return p.supportsDatagrams }
