//go:build verif

package quicvarint

// VerifConsts exposes the unexported thresholds to the constants translator.
func VerifConsts() [][2]any {
	return [][2]any{{"maxVarInt1", uint64(maxVarInt1)}, {"maxVarInt2", uint64(maxVarInt2)}, {"maxVarInt4", uint64(maxVarInt4)}, {"maxVarInt8", uint64(maxVarInt8)}}
}
