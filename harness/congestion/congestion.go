//go:build verif

package congestion

import (
	"time"

	"github.com/refraction-networking/uquic/internal/monotime"
	"github.com/refraction-networking/uquic/internal/protocol"
	"github.com/refraction-networking/uquic/internal/utils"
	vu "github.com/refraction-networking/uquic/internal/verifutil"
)

// Verification harness for the congestion controller (property C20). Add-only: it
// constructs the real sender / pacer through the package's own constructors, calls
// their methods and reads unexported fields for observation.

// VerifConsts exposes the constants the Gallina model uses.
func VerifConsts() [][2]any {
	return [][2]any{
		{"cc_initialMaxDatagramSize", int64(initialMaxDatagramSize)},
		{"cc_maxBurstPackets", int64(maxBurstPackets)},
		{"cc_minCongestionWindowPackets", int64(minCongestionWindowPackets)},
		{"cc_initialCongestionWindow", int64(initialCongestionWindow)},
		{"cc_maxCongestionWindowPackets", int64(protocol.MaxCongestionWindowPackets)},
		{"cc_maxBurstSizePackets", int64(maxBurstSizePackets)},
		{"cc_minPacingDelayNs", int64(protocol.MinPacingDelay.Nanoseconds())},
		{"cc_timerGranularityNs", int64(protocol.TimerGranularity.Nanoseconds())},
		{"cc_maxByteCount", int64(protocol.MaxByteCount)},
		{"cc_invalidPacketNumber", int64(protocol.InvalidPacketNumber)},
		{"cc_bytesPerSecond", uint64(BytesPerSecond)},
		{"cc_hybridStartLowWindow", int64(hybridStartLowWindow)},
		{"cc_hybridStartMinSamples", int64(hybridStartMinSamples)},
		{"cc_hybridStartDelayFactorExp", int64(hybridStartDelayFactorExp)},
		{"cc_hybridStartDelayMinThresholdUs", int64(hybridStartDelayMinThresholdUs)},
		{"cc_hybridStartDelayMaxThresholdUs", int64(hybridStartDelayMaxThresholdUs)},
		// renoBeta as the float64 the compiler uses: mantissa m and exponent e with beta = m * 2^-e
		{"cc_renoBetaMant", int64(verifBetaMant())},
		{"cc_renoBetaExp", int64(verifBetaExp())},
	}
}

// renoBeta is an untyped constant; float64(renoBeta) is what `float64(cwnd) * renoBeta` uses.
// Decompose it exactly: beta = mant * 2^-exp with mant < 2^53 (beta in (0,1]).
func verifBetaDecomp() (uint64, int) {
	b := float64(renoBeta)
	e := 0
	for b != float64(uint64(b)) && e < 1100 {
		b *= 2
		e++
	}
	return uint64(b), e
}
func verifBetaMant() uint64 { m, _ := verifBetaDecomp(); return m }
func verifBetaExp() int     { _, e := verifBetaDecomp(); return e }

// VerifState is every field of cubicSender (+ hybrid slow start + pacer) that the model carries.
type VerifState struct {
	Cwnd, Ssthresh                              int64
	LargestSent, LargestAcked, LargestAtCutback int64
	LastCutbackExitedSS                         bool
	NumAcked                                    uint64
	Mds, InitCwnd, InitMaxCwnd                  int64
	Reno                                        bool
	HsEnd, HsLastSent                           int64
	HsStarted, HsFound                          bool
	HsCurMinRTT                                 int64
	HsCount                                     uint32
	PBudget, PMds, PLast                        int64
}

type VerifSender struct {
	C   *cubicSender
	Rtt *utils.RTTStats
}

// VerifNewSender builds the sender exactly as production does (NewCubicSender).
func VerifNewSender(mds int64, reno bool) *VerifSender {
	rtt := utils.NewRTTStats()
	c := NewCubicSender(DefaultClock{}, rtt, &utils.ConnectionStats{}, protocol.ByteCount(mds), reno, nil)
	return &VerifSender{C: c, Rtt: rtt}
}

// VerifNewSenderW uses the package's unexported constructor (as its unit tests do) to start
// from an arbitrary initial / maximum window: exercises the window arithmetic on extreme values.
func VerifNewSenderW(mds int64, reno bool, icw, imax int64) *VerifSender {
	rtt := utils.NewRTTStats()
	c := newCubicSender(DefaultClock{}, rtt, &utils.ConnectionStats{}, reno, protocol.ByteCount(mds), protocol.ByteCount(icw), protocol.ByteCount(imax), nil)
	return &VerifSender{C: c, Rtt: rtt}
}

func (v *VerifSender) State() VerifState { return verifStateOfSender(v.C) }

// VerifStateOf: the model-visible state of a SendAlgorithm that is the package's cubicSender
// (what NewCubicSender returns behind the interface), for harnesses outside the package.
func VerifStateOf(a SendAlgorithm) (VerifState, bool) {
	c, ok := a.(*cubicSender)
	if !ok {
		return VerifState{}, false
	}
	return verifStateOfSender(c), true
}

// VerifObStr prints the observation term `Ob ret panicked <fields>` of coq/Congestion/Run.v.
func VerifObStr(ret int64, pan bool, s VerifState) string {
	return vu.App("Ob", vu.Z(ret), vu.B(pan), vu.Z(s.Cwnd), vu.Z(s.Ssthresh), vu.Z(s.LargestSent), vu.Z(s.LargestAcked),
		vu.Z(s.LargestAtCutback), vu.B(s.LastCutbackExitedSS), vu.ZU(s.NumAcked), vu.Z(s.Mds), vu.Z(s.HsEnd), vu.Z(s.HsLastSent),
		vu.B(s.HsStarted), vu.B(s.HsFound), vu.Z(s.HsCurMinRTT), vu.Z(int64(s.HsCount)), vu.Z(s.PBudget), vu.Z(s.PMds), vu.Z(s.PLast))
}

func verifStateOfSender(c *cubicSender) VerifState {
	return VerifState{
		Cwnd: int64(c.congestionWindow), Ssthresh: int64(c.slowStartThreshold),
		LargestSent: int64(c.largestSentPacketNumber), LargestAcked: int64(c.largestAckedPacketNumber),
		LargestAtCutback: int64(c.largestSentAtLastCutback), LastCutbackExitedSS: c.lastCutbackExitedSlowstart,
		NumAcked: c.numAckedPackets, Mds: int64(c.maxDatagramSize), InitCwnd: int64(c.initialCongestionWindow),
		InitMaxCwnd: int64(c.initialMaxCongestionWindow), Reno: c.reno,
		HsEnd: int64(c.hybridSlowStart.endPacketNumber), HsLastSent: int64(c.hybridSlowStart.lastSentPacketNumber),
		HsStarted: c.hybridSlowStart.started, HsFound: c.hybridSlowStart.hystartFound,
		HsCurMinRTT: int64(c.hybridSlowStart.currentMinRTT), HsCount: c.hybridSlowStart.rttSampleCount,
		PBudget: int64(c.pacer.budgetAtLastSent), PMds: int64(c.pacer.maxDatagramSize), PLast: int64(c.pacer.lastSentTime),
	}
}

func (v *VerifSender) OnPacketSent(now, pn, bytes int64, retransmittable bool) {
	v.C.OnPacketSent(monotime.Time(now), 0, protocol.PacketNumber(pn), protocol.ByteCount(bytes), retransmittable)
}
func (v *VerifSender) OnPacketAcked(pn, bytes, prior, now int64) {
	v.C.OnPacketAcked(protocol.PacketNumber(pn), protocol.ByteCount(bytes), protocol.ByteCount(prior), monotime.Time(now))
}
func (v *VerifSender) OnCongestionEvent(pn, lost, prior int64) {
	v.C.OnCongestionEvent(protocol.PacketNumber(pn), protocol.ByteCount(lost), protocol.ByteCount(prior))
}
func (v *VerifSender) OnRetransmissionTimeout(b bool) { v.C.OnRetransmissionTimeout(b) }
func (v *VerifSender) OnConnectionMigration()         { v.C.OnConnectionMigration() }
func (v *VerifSender) MaybeExitSlowStart()            { v.C.MaybeExitSlowStart() }
func (v *VerifSender) SetMaxDatagramSize(s int64)     { v.C.SetMaxDatagramSize(protocol.ByteCount(s)) }
func (v *VerifSender) HasPacingBudget(now int64) bool { return v.C.HasPacingBudget(monotime.Time(now)) }
func (v *VerifSender) TimeUntilSend() int64           { return int64(v.C.TimeUntilSend(0)) }
func (v *VerifSender) CanSend(bif int64) bool         { return v.C.CanSend(protocol.ByteCount(bif)) }
func (v *VerifSender) InRecovery() bool               { return v.C.InRecovery() }
func (v *VerifSender) InSlowStart() bool              { return v.C.InSlowStart() }
func (v *VerifSender) Cwnd() int64                    { return int64(v.C.GetCongestionWindow()) }
func (v *VerifSender) BandwidthEstimate() uint64      { return uint64(v.C.BandwidthEstimate()) }
func (v *VerifSender) PacerBudget(now int64) int64 {
	return int64(v.C.pacer.Budget(monotime.Time(now)))
}
func (v *VerifSender) PacerMaxBurst() int64 { return int64(v.C.pacer.maxBurstSize()) }

// IsCwndLimited exposes the unexported predicate (used only for the DIST statistics, the
// monitor recomputes the documented condition itself).
func (v *VerifSender) IsCwndLimited(prior int64) bool {
	return v.C.isCwndLimited(protocol.ByteCount(prior))
}

// Cubic-mode oracles: the value the Cubic window functions WOULD return for the next call,
// computed on a copy of the Cubic state so the real object is not disturbed.
func (v *VerifSender) CubicAfterAckOracle(ackedBytes, now int64) int64 {
	cp := *v.C.cubic
	return int64(cp.CongestionWindowAfterAck(protocol.ByteCount(ackedBytes), v.C.congestionWindow, v.Rtt.MinRTT(), monotime.Time(now)))
}
func (v *VerifSender) CubicAfterLossOracle() int64 {
	cp := *v.C.cubic
	return int64(cp.CongestionWindowAfterPacketLoss(v.C.congestionWindow))
}

// ---- the pacer on its own, with a bandwidth function the harness controls ----

type VerifPacer struct {
	P  *pacer
	Bw uint64 // bits per second, returned by getBandwidth
}

func VerifNewPacer(bw uint64) *VerifPacer {
	vp := &VerifPacer{Bw: bw}
	vp.P = newPacer(func() Bandwidth { return Bandwidth(vp.Bw) })
	return vp
}
func (vp *VerifPacer) SentPacket(t, size int64) {
	vp.P.SentPacket(monotime.Time(t), protocol.ByteCount(size))
}
func (vp *VerifPacer) Budget(t int64) int64 { return int64(vp.P.Budget(monotime.Time(t))) }
func (vp *VerifPacer) MaxBurst() int64      { return int64(vp.P.maxBurstSize()) }
func (vp *VerifPacer) TimeUntilSend() int64 { return int64(vp.P.TimeUntilSend()) }
func (vp *VerifPacer) SetMaxDatagramSize(s int64) {
	vp.P.SetMaxDatagramSize(protocol.ByteCount(s))
}
func (vp *VerifPacer) Scaled(ns uint64) int64 { return int64(vp.P.timeScaledBandwidth(ns)) }
func (vp *VerifPacer) Adjusted() uint64       { return vp.P.adjustedBandwidth() }
func (vp *VerifPacer) Fields() (budget, mds, last int64) {
	return int64(vp.P.budgetAtLastSent), int64(vp.P.maxDatagramSize), int64(vp.P.lastSentTime)
}

func VerifBandwidthFromDelta(bytes, deltaNs int64) uint64 {
	return uint64(BandwidthFromDelta(protocol.ByteCount(bytes), time.Duration(deltaNs)))
}
